import CelModel.Cmp
import CelModel.Ast
import CelModel.StrOps
import CelModel.Time
/-!
# The evaluator (`Value::resolve`, `functions.rs`, `magic.rs`, `resolvers.rs`, `context.rs`)

`eval` is a structural recursion over `Expr`.  A call node hands its operands to `callNode` as
*unevaluated computations* (`List (EvalM Value)`), which models the lazy, callee-driven argument
evaluation of the Rust code: an operand is evaluated exactly when its computation is run.
-/
namespace Cel

abbrev EvalM := M Value

/-! ## Functions known to a context -/

inductive Builtin where
  | contains | size | max | min | startsWith | endsWith | string | bytes | double | int | uint
  | matches | duration | timestamp | timeAccessor (a : Time.Accessor)
deriving Repr, DecidableEq, Inhabited

/-- parameter types of `FromValue` -/
inductive ExtTy where
  | value | int | uint | dbl | str | bytes | bool | list | dur | ts
deriving Repr, DecidableEq, Inhabited

/-- the argument extractors of `magic.rs` -/
inductive Extractor where
  | this (t : ExtTy)       -- `This<T>`
  | thisOpt (t : ExtTy)    -- `This<Option<T>>`
  | pos (t : ExtTy)        -- `T`
  | posOpt (t : ExtTy)     -- never constructible in Rust for positional (kept for completeness)
  | allArgs                -- `Arguments`
  | ident                  -- `Identifier`
  | expr                   -- `Expression`
deriving Repr, DecidableEq, Inhabited

/-- what a harness-defined host function does once its parameters are extracted -/
inductive HostBody where
  | echo                  -- log the call, return the list of extracted parameters
  | fail                  -- log the call, return a function error
  | const (v : Value)     -- log the call, return `v`
  | first                 -- log the call, return the first extracted parameter (or null)
deriving Repr, Inhabited

inductive FnKind where
  | builtin (b : Builtin)
  | host (sig : List Extractor) (body : HostBody)
deriving Repr, Inhabited

abbrev Scope := List (String × Value)

/-- `Context`: a chain of variable scopes (innermost first, the root last), the function
registry of the root, and the table of externally computed regex answers. -/
structure Ctx where
  scopes : List Scope := [[]]
  fns : List (String × FnKind) := []
  regex : List ((Str × Str) × Option Bool) := []
deriving Repr, Inhabited

namespace Ctx
def lookupScope : Scope → String → Option Value
  | [], _ => none
  | (k, v) :: rest, n => if k == n then some v else lookupScope rest n

/-- `Context::get_variable`: innermost scope that binds the name -/
def getVar : List Scope → String → Option Value
  | [], _ => none
  | s :: rest, n => match lookupScope s n with
    | some v => some v
    | none => getVar rest n

def getVariable (c : Ctx) (n : String) : Option Value := getVar c.scopes n

/-- `HashMap::insert` on one scope: replace the binding of the name or add one -/
def scopeInsert : Scope → String → Value → Scope
  | [], n, v => [(n, v)]
  | (k, v') :: rest, n, v => if k == n then (n, v) :: rest else (k, v') :: scopeInsert rest n v

/-- `Context::add_variable_from_value` on the innermost scope -/
def bind (c : Ctx) (n : String) (v : Value) : Ctx :=
  match c.scopes with
  | s :: rest => { c with scopes := scopeInsert s n v :: rest }
  | [] => { c with scopes := [[(n, v)]] }

/-- `Context::new_inner_scope` with the given bindings -/
def push (c : Ctx) (s : Scope) : Ctx := { c with scopes := s :: c.scopes }

def lookupFn : List (String × FnKind) → String → Option FnKind
  | [], _ => none
  | (k, v) :: rest, n => if k == n then some v else lookupFn rest n

def getFunction (c : Ctx) (n : String) : Option FnKind := lookupFn c.fns n
def hasFunction (c : Ctx) (n : String) : Bool := (c.getFunction n).isSome

def lookupRegex : List ((Str × Str) × Option Bool) → Str → Str → Option (Option Bool)
  | [], _, _ => none
  | ((p, s), r) :: rest, pat, str => if p == pat && s == str then some r else lookupRegex rest pat str
end Ctx

/-! ## Operators on values (`impl Add/Sub/Mul/Div/Rem for Value`) -/

def liftInt (o : Outcome Int) (f : Int → Value) : Outcome Value := o.map f

def arith (op : ArithOp) (a b : Value) : Outcome Value :=
  match a, b with
  | .int l, .int r => (intArith op l r).map .int
  | .uint l, .uint r => (uintArith op l r).map .uint
  | .dbl l, .dbl r =>
    match op with
    | .add => .ok (.dbl (F64.add l r))
    | .sub => .ok (.dbl (F64.sub l r))
    | .mul => .ok (.dbl (F64.mul l r))
    | .div => .ok (.dbl (F64.div l r))
    | .rem => .err .unsupportedOp
  | .list l, .list r => match op with
    | .add => .ok (.list (l ++ r))
    | _ => .err .unsupportedOp
  | .str l, .str r => match op with
    | .add => .ok (.str (l ++ r))
    | _ => .err .unsupportedOp
  | .dur l, .dur r => match op with
    | .add => if Dur.inRange (l + r) then .ok (.dur (l + r)) else .err .overflow
    | .sub => if Dur.inRange (l - r) then .ok (.dur (l - r)) else .err .overflow
    | _ => .err .unsupportedOp
  | .ts t off, .dur d => match op with
    | .add => if Time.inRange (t + d) then .ok (.ts (t + d) off) else .err .overflow
    | .sub => if Time.inRange (t - d) then .ok (.ts (t - d) off) else .err .overflow
    | _ => .err .unsupportedOp
  | .dur d, .ts t off => match op with
    | .add => if Time.inRange (t + d) then .ok (.ts (t + d) off) else .err .overflow
    | _ => .err .unsupportedOp
  | .ts a _, .ts b _ => match op with
    | .sub => .ok (.dur (a - b))
    | _ => .err .unsupportedOp
  | _, _ => .err .unsupportedOp

/-- the four ordering operators, from `partial_cmp` -/
def relOp (op : BinOp) (a b : Value) : Outcome Value :=
  match Value.partialCmp a b with
  | none => .err .notcomparable
  | some o =>
    match op with
    | .lt => .ok (.bool (o == .lt))
    | .le => .ok (.bool (o != .gt))
    | .gt => .ok (.bool (o == .gt))
    | .ge => .ok (.bool (o != .lt))
    | _ => .err .other

/-- `@in` -/
def inOp (l r : Value) : Outcome Value :=
  match l, r with
  | .str a, .str b => .ok (.bool (isInfixOf a b))
  | x, .list xs => .ok (.bool (listContains xs x))
  | x, .map m => match x.toKey? with
    | some k => .ok (.bool (MapV.get m k).isSome)
    | none => .ok (.bool false)
  | _, _ => .err .notcomparable

/-- `_[_]` -/
def indexOp (v idx : Value) : Outcome Value :=
  match v, idx with
  | .list items, .int i =>
    if 0 ≤ i then .ok ((items[i.toNat]?).getD .null) else .ok .null
  | .str s, .int i =>
    if 0 ≤ i && i < i64Max then
      match strByteAt s i.toNat with
      | some c => .ok (.str [c])
      | none => .ok .null
    else .ok .null
  | .map m, .str k => .ok ((MapV.get m (Key.str k)).getD .null)
  | .map m, .bool k => .ok ((MapV.get m (Key.bool k)).getD .null)
  | .map m, .int k => .ok ((MapV.get m (Key.int k)).getD .null)
  | .map m, .uint k => .ok ((MapV.get m (Key.uint k)).getD .null)
  | .map _, _ => .err .badIndex
  | .list _, _ => .err .badIndex
  | _, _ => .err .badIndex

/-- strict binary operators applied to two values (everything except `&&`, `||`) -/
def applyBin (op : BinOp) (a b : Value) : Outcome Value :=
  match op with
  | .add => arith .add a b
  | .sub => arith .sub a b
  | .mul => arith .mul a b
  | .div => arith .div a b
  | .rem => arith .rem a b
  | .eq => .ok (.bool (Value.eq a b))
  | .ne => .ok (.bool (!Value.eq a b))
  | .lt => relOp .lt a b
  | .le => relOp .le a b
  | .gt => relOp .gt a b
  | .ge => relOp .ge a b
  | .in_ => inOp a b
  | .index => indexOp a b
  | .or => .ok (if a.truthy then a else b)
  | .and => .ok (.bool (a.truthy && b.truthy))

def applyUn (op : UnOp) (v : Value) : Outcome Value :=
  match op with
  | .not => .ok (.bool (!v.truthy))
  | .neg => match v with
    | .int i => (intNeg i).map .int
    | .dbl f => .ok (.dbl (F64.neg f))
    | _ => .err .unsupportedOp
  | .notStrictlyFalse => match v with
    | .bool b => .ok (.bool b)
    | _ => .ok (.bool true)

/-! ## Built-in functions (`functions.rs`) on already extracted parameters -/

def sizeFn : Value → Outcome Value
  | .list l => .ok (.int l.length)
  | .map m => .ok (.int m.length)
  | .str s => .ok (.int (strSize s))
  | .bytes b => .ok (.int b.length)
  | _ => .err .functionError

def containsFn (this arg : Value) : Outcome Value :=
  match this with
  | .list v => .ok (.bool (listContains v arg))
  | .map m => match arg.toKey? with
    | some k => .ok (.bool (MapV.get m k).isSome)
    | none => .err .badKey
  | .str s => match arg with
    | .str a => .ok (.bool (isInfixOf a s))
    | _ => .ok (.bool false)
  | .bytes b => match arg with
    | .bytes a => .ok (.bool (isInfixOf a b))
    | _ => .ok (.bool false)
  | _ => .ok (.bool false)

def stringFn : Value → Outcome Value
  | .str s => .ok (.str s)
  | .ts t off => .ok (.str (Time.format t off))
  | .dur d => .ok (.str (Dur.format d))
  | .int i => .ok (.str (intToDec i))
  | .uint n => .ok (.str (intToDec n))
  | .dbl f => .ok (.str (F64.fmt f))
  | .bytes b => .ok (.str (bytesToStrLossy b))
  | _ => .err .functionError

def doubleFn : Value → Outcome Value
  | .str s => match F64.parse s with
    | some b => .ok (.dbl b)
    | none => .err .functionError
  | .dbl f => .ok (.dbl f)
  | .int i => .ok (.dbl (F64.ofInt i))
  | .uint n => .ok (.dbl (F64.ofInt n))
  | _ => .err .functionError

def uintFn : Value → Outcome Value
  | .str s => match parseIntText false s with
    | some n => if inU64 n then .ok (.uint n) else .err .functionError
    | none => .err .functionError
  | .dbl f => match F64.truncToInt (F64.decode f) with
    | some t =>
      -- accepted iff 0 ≤ f < 2^64 as real numbers (so −0.5 is rejected, −0.0 accepted)
      if F64.cmpIntD 0 (F64.decode f) != some .gt && t ≤ u64Max then .ok (.uint t) else .err .functionError
    | none => .err .functionError
  | .int i => if inU64 i then .ok (.uint i) else .err .functionError
  | .uint n => .ok (.uint n)
  | _ => .err .functionError

def intFn : Value → Outcome Value
  | .str s => match parseIntText true s with
    | some n => if inI64 n then .ok (.int n) else .err .functionError
    | none => .err .functionError
  | .dbl f => match F64.truncToInt (F64.decode f) with
    | some t => if inI64 t then .ok (.int t) else .err .functionError
    | none => .err .functionError
  | .int i => .ok (.int i)
  | .uint n => if inI64 n then .ok (.int n) else .err .functionError
  | _ => .err .functionError

/-- the fold of `max` (`wantGreater = true`) and `min` over a non-empty prefix `acc` -/
def extremumFold (wantGreater : Bool) : Value → List Value → Outcome Value
  | acc, [] => .ok acc
  | acc, x :: xs =>
    match Value.partialCmp acc x with
    | none => .err .notcomparable
    | some o =>
      let keepAcc := if wantGreater then o == .gt else o == .lt
      extremumFold wantGreater (if keepAcc then acc else x) xs

def extremumFn (wantGreater : Bool) (args : List Value) : Outcome Value :=
  let items : Option (List Value) := match args with
    | [.list vs] => some vs
    | [_] => none
    | _ => some args
  match items, args with
  | none, a :: _ => .ok a
  | none, [] => .ok .null
  | some [], _ => .ok .null
  | some (x :: xs), _ => extremumFold wantGreater x xs

def applyBuiltin (ctx : Ctx) (b : Builtin) (ps : List Value) : Outcome Value :=
  match b, ps with
  | .size, [v] => sizeFn v
  | .contains, [t, a] => containsFn t a
  | .max, [.list args] => extremumFn true args
  | .min, [.list args] => extremumFn false args
  | .startsWith, [.str t, .str p] => .ok (.bool (isPrefixOf p t))
  | .endsWith, [.str t, .str p] => .ok (.bool (isSuffixOf p t))
  | .string, [v] => stringFn v
  | .bytes, [.str s] => .ok (.bytes (strToBytes s))
  | .double, [v] => doubleFn v
  | .int, [v] => intFn v
  | .uint, [v] => uintFn v
  | .matches, [.str t, .str re] =>
    match Ctx.lookupRegex ctx.regex re t with
    | some (some r) => .ok (.bool r)
    | some none => .err .functionError
    -- the harness re-sends the case with the answer of the `regex` crate in `ctx.regex`
    | none => .err (.needRegex (hexOfStr re) (hexOfStr t))
  | .duration, [.str s] => match Dur.parse s with
    | some ns => .ok (.dur ns)
    | none => .err .functionError
  | .timestamp, [.str s] => match Time.parse s with
    | some (t, off) => .ok (.ts t off)
    | none => .err .functionError
  | .timeAccessor a, [.ts t off] => .ok (.int (Time.access a t off))
  | _, _ => .panic "builtin-arity"

def Builtin.sig : Builtin → List Extractor
  | .size => [.this .value]
  | .contains => [.this .value, .pos .value]
  | .max => [.allArgs]
  | .min => [.allArgs]
  | .startsWith => [.this .str, .pos .str]
  | .endsWith => [.this .str, .pos .str]
  | .string => [.this .value]
  | .bytes => [.pos .str]
  | .double => [.this .value]
  | .int => [.this .value]
  | .uint => [.this .value]
  | .matches => [.this .str, .pos .str]
  | .duration => [.pos .str]
  | .timestamp => [.pos .str]
  | .timeAccessor _ => [.this .ts]

/-! ## Argument extraction (`magic.rs`) -/

/-- `FromValue` -/
def fromValue (t : ExtTy) (v : Value) : Outcome Value :=
  match t, v with
  | .value, v => .ok v
  | .int, .int i => .ok (.int i)
  | .uint, .uint n => .ok (.uint n)
  | .dbl, .dbl f => .ok (.dbl f)
  | .str, .str s => .ok (.str s)
  | .bytes, .bytes b => .ok (.bytes b)
  | .bool, .bool b => .ok (.bool b)
  | .list, .list l => .ok (.list l)
  | .dur, .dur d => .ok (.dur d)
  | .ts, .ts t o => .ok (.ts t o)
  | _, _ => .err .badType

/-- `FromValue for Option<T>` -/
def fromValueOpt (t : ExtTy) (v : Value) : Outcome Value :=
  match v with
  | .null => .ok .null
  | v => fromValue t v

def runAll : List (EvalM Value) → EvalM (List Value)
  | [] => pure []
  | t :: ts => do
    let v ← t
    let vs ← runAll ts
    pure (v :: vs)

/-- Extract the parameters named by `sig`, left to right.  `idx` is `FunctionContext::arg_idx`. -/
def extract (this : Option Value) (thunks : List (EvalM Value)) (argEs : List Expr) :
    List Extractor → Nat → EvalM (List Value)
  | [], _ => pure []
  | ex :: rest, idx => do
    let (v, idx') ← (match ex with
      | .this t =>
        (match this with
        | some tv => do let v ← M.lift (fromValue t tv); pure (v, idx)
        | none =>
          match thunks[idx]? with
          | none => M.throw .missingTarget
          | some th => do let a ← th; let v ← M.lift (fromValue t a); pure (v, idx + 1))
      | .thisOpt t =>
        (match this with
        | some tv => do let v ← M.lift (fromValueOpt t tv); pure (v, idx)
        | none =>
          match thunks[idx]? with
          | none => M.throw .missingTarget
          | some th => do let a ← th; let v ← M.lift (fromValueOpt t a); pure (v, idx + 1))
      | .pos t =>
        (match thunks[idx]? with
        | none => M.throw .badArgc
        | some th => do let a ← th; let v ← M.lift (fromValue t a); pure (v, idx + 1))
      | .posOpt t =>
        (match thunks[idx]? with
        | none => M.throw .badArgc
        | some th => do let a ← th; let v ← M.lift (fromValueOpt t a); pure (v, idx + 1))
      | .allArgs => do let vs ← runAll thunks; pure (Value.list vs, idx)
      | .ident =>
        (match argEs[idx]? with
        | none => M.throw .badArgc
        | some (.ident n) => pure (Value.str n.toList, idx + 1)
        | some _ => M.throw .badType)
      | .expr =>
        (match argEs[idx]? with
        | none => M.throw .badArgc
        | some _ => pure (Value.str "<expr>".toList, idx + 1)) : EvalM (Value × Nat))
    let vs ← extract this thunks argEs rest idx'
    pure (v :: vs)

/-- invoke a registered function: extract its parameters, then run its body -/
def applyFn (ctx : Ctx) (name : String) (k : FnKind) (this : Option Value)
    (thunks : List (EvalM Value)) (argEs : List Expr) : EvalM Value :=
  match k with
  | .builtin b => do
    let ps ← extract this thunks argEs b.sig 0
    M.lift (applyBuiltin ctx b ps)
  | .host sig body => do
    let ps ← extract this thunks argEs sig 0
    M.logCall { name := name, args := ps }
    match body with
    | .echo => pure (.list ps)
    | .fail => M.throw .functionError
    | .const v => pure v
    | .first => pure (ps.head?.getD .null)

/-! ## Call nodes -/

/-- `Expr::Call`: operators by (name, arity) first — ignoring any receiver — then functions.
`target` is the receiver's evaluation, `thunks` the arguments' evaluations. -/
def callNode (ctx : Ctx) (f : String) (target : Option (EvalM Value)) (argEs : List Expr)
    (thunks : List (EvalM Value)) : EvalM Value :=
  let fnCall : EvalM Value :=
    match ctx.getFunction f with
    | none => M.throw (.undeclared f)
    | some k =>
      match target with
      | none => applyFn ctx f k none thunks argEs
      | some t => do
        let tv ← t
        applyFn ctx f k (some tv) thunks argEs
  match thunks with
  | [c, a, b] =>
    if f == condName then do
      let cv ← c
      if cv.truthy then a else b
    else fnCall
  | [a, b] =>
    match binOpOfName f with
    | some .or => do
      let l ← a
      if l.truthy then pure l else b
    | some .and => do
      let l ← a
      if !l.truthy then pure (.bool false)
      else do
        let r ← b
        pure (.bool r.truthy)
    | some op => do
      let l ← a
      let r ← b
      M.lift (applyBin op l r)
    | none => fnCall
  | [a] =>
    match unOpOfName f with
    | some op => do
      let v ← a
      M.lift (applyUn op v)
    | none => fnCall
  | _ => fnCall

/-- `Value::member`: plain field selection -/
def member (ctx : Ctx) (v : Value) (field : Str) : Outcome Value :=
  let child : Option Value := match v with
    | .map m => MapV.find? m (.str field)
    | _ => none
  match child with
  | some c => .ok c
  | none =>
    if ctx.hasFunction (String.ofList field) then .ok (.fn (String.ofList field) [v])
    else .err .nosuchkey

/-- `has(e.f)`: some key of the map renders to the field text -/
def hasField (v : Value) (field : Str) : Value :=
  match v with
  | .map m => .bool (m.any (fun kv => kv.1.toText == field))
  | _ => .bool false

/-- the comprehension loop; `sc` is the inner scope (`HashMap` of the child context) -/
def loopG (iv av : String) (evCond evStep : Scope → EvalM Value) :
    List Value → Scope → EvalM Scope
  | [], sc => pure sc
  | item :: rest, sc => do
    let c ← evCond sc
    if !c.truthy then pure sc
    else do
      let sc1 := Ctx.scopeInsert sc iv item
      let acc ← evStep sc1
      loopG iv av evCond evStep rest (Ctx.scopeInsert sc1 av acc)

mutual
/-- `Value::resolve` -/
def eval (ctx : Ctx) : Expr → EvalM Value
  | .lit v => do M.tick; pure v
  | .ident n => do
    M.tick
    match ctx.getVariable n with
    | some v => pure v
    | none => M.throw (.undeclared n)
  | .call f args => do
    M.tick
    callNode ctx f none args (evalThunks ctx args)
  | .mcall f t args => do
    M.tick
    callNode ctx f (some (eval ctx t)) args (evalThunks ctx args)
  | .select e field test => do
    M.tick
    let v ← eval ctx e
    if test then pure (hasField v field) else M.lift (member ctx v field)
  | .list es => do
    M.tick
    let vs ← evalList ctx es
    pure (.list vs)
  | .map entries => do
    M.tick
    let m ← evalEntries ctx entries []
    pure (.map m)
  | .struct _ _ _ => do
    M.tick
    M.throw .functionError
  | .comp iv range av init cond step result => do
    M.tick
    let vinit ← eval ctx init
    let r ← eval ctx range
    let items ← (match r with
      | .list xs => pure xs
      | .map m => pure (m.map (fun kv => kv.1.toValue))
      | _ => M.throw .badTarget : EvalM (List Value))
    let sc ← loopG iv av (fun sc => eval (ctx.push sc) cond) (fun sc => eval (ctx.push sc) step)
      items [(av, vinit)]
    eval (ctx.push sc) result
  | .unspecified => M.panic "objects.rs: Can't evaluate Unspecified Expr"
/-- the not-yet-run evaluations of a list of expressions -/
def evalThunks (ctx : Ctx) : List Expr → List (EvalM Value)
  | [] => []
  | e :: es => eval ctx e :: evalThunks ctx es
/-- list literal / `resolve_all`: left to right, first error aborts -/
def evalList (ctx : Ctx) : List Expr → EvalM (List Value)
  | [] => pure []
  | e :: es => do
    let v ← eval ctx e
    let vs ← evalList ctx es
    pure (v :: vs)
/-- map literal: key before value, entries in order, later duplicates overwrite -/
def evalEntries (ctx : Ctx) : List (Expr × Expr) → MapV → EvalM MapV
  | [], acc => pure acc
  | (k, v) :: rest, acc => do
    let kv ← eval ctx k
    match kv.toKey? with
    | none => M.throw .badKey
    | some key => do
      let vv ← eval ctx v
      evalEntries ctx rest (MapV.insert acc key vv)
end

/-- `Program::execute` -/
def execute (ctx : Ctx) (e : Expr) : Outcome Value × St Value := (eval ctx e).run

end Cel
