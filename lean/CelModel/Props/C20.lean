import CelModel.Props.C02
import CelModel.Props.C07
/-!
# C20 — function calls bind receiver and arguments predictably
-/
namespace Cel.Props.C20
open Cel

/-- extractors that neither look at the receiver nor at all arguments at once -/
def positionalOnly : List Extractor → Bool
  | [] => true
  | .pos _ :: r => positionalOnly r
  | .posOpt _ :: r => positionalOnly r
  | .ident :: r => positionalOnly r
  | .expr :: r => positionalOnly r
  | _ => false

/-- positional extraction only depends on the arguments from `idx` on: an extra leading
argument shifts the indices by one; the receiver is irrelevant -/
theorem extract_shift (t0 : EvalM Value) (e0 : Expr) (thunks : List (EvalM Value))
    (argEs : List Expr) (this1 this2 : Option Value) :
    ∀ (sig : List Extractor) (idx : Nat), positionalOnly sig = true →
      extract this1 (t0 :: thunks) (e0 :: argEs) sig (idx + 1) = extract this2 thunks argEs sig idx := by
  intro sig
  induction sig with
  | nil => intro idx _; simp [extract]
  | cons ex rest ih =>
    intro idx h
    cases ex with
    | pos t =>
      simp only [positionalOnly] at h
      simp only [extract, List.getElem?_cons_succ]
      cases thunks[idx]? with
      | none => funext s; rfl
      | some th => simp only [M.bind_assoc, M.pure_bind, ih (idx + 1) h]
    | posOpt t =>
      simp only [positionalOnly] at h
      simp only [extract, List.getElem?_cons_succ]
      cases thunks[idx]? with
      | none => funext s; rfl
      | some th => simp only [M.bind_assoc, M.pure_bind, ih (idx + 1) h]
    | ident =>
      simp only [positionalOnly] at h
      simp only [extract, List.getElem?_cons_succ]
      cases argEs[idx]? with
      | none => funext s; rfl
      | some e =>
        cases e <;> first
          | (funext s; rfl)
          | (simp only [M.pure_bind, ih (idx + 1) h])
    | expr =>
      simp only [positionalOnly] at h
      simp only [extract, List.getElem?_cons_succ]
      cases argEs[idx]? with
      | none => funext s; rfl
      | some e => simp only [M.pure_bind, ih (idx + 1) h]
    | this t => simp [positionalOnly] at h
    | thisOpt t => simp [positionalOnly] at h
    | allArgs => simp [positionalOnly] at h

/-- the parameter list of a registered function -/
def sigOf : FnKind → List Extractor
  | .builtin b => b.sig
  | .host sig _ => sig

/-- For a function whose first parameter is the receiver extractor `This<T>` (followed by
positional parameters only) `x.f(args)` and `f(x, args)` are the same computation: same
outcome, same host-call log, same step count, for all `x` and `args`. -/
theorem receiver_style_equiv (ctx : Ctx) (f : String) (x : Expr) (args : List Expr)
    (k : FnKind) (ty : ExtTy) (rest : List Extractor)
    (hf : ctx.getFunction f = some k)
    (hsig : sigOf k = .this ty :: rest)
    (hrest : positionalOnly rest = true)
    (hop : (f == condName) = false ∧ binOpOfName f = none ∧ unOpOfName f = none) :
    eval ctx (.mcall f x args) = eval ctx (.call f (x :: args)) := by
  have hcall : ∀ (tg : Option (EvalM Value)) (as : List Expr) (ths : List (EvalM Value)),
      callNode ctx f tg as ths =
        (match tg with
         | none => applyFn ctx f k none ths as
         | some t => do let tv ← t; applyFn ctx f k (some tv) ths as) := by
    intro tg as ths
    unfold callNode
    simp only [hf, hop.1, hop.2.1, hop.2.2]
    match ths with
    | [] => rfl
    | [_] => rfl
    | [_, _] => rfl
    | [_, _, _] => cases tg <;> simp
    | _ :: _ :: _ :: _ :: _ => rfl
  funext st
  rw [eval, eval]
  simp only [hcall, evalThunks]
  apply congrFun
  apply M.bind_congr; intro _
  cases k with
  | builtin b =>
    simp only [sigOf] at hsig
    simp only [applyFn, hsig, extract, List.getElem?_cons_zero, M.bind_assoc]
    apply M.bind_congr; intro tv
    apply M.bind_congr; intro v
    simp only [M.pure_bind]
    rw [extract_shift (eval ctx x) x (evalThunks ctx args) args none (some tv) rest 0 hrest]
  | host sig body =>
    simp only [sigOf] at hsig
    subst hsig
    simp only [applyFn, extract, List.getElem?_cons_zero, M.bind_assoc]
    apply M.bind_congr; intro tv
    apply M.bind_congr; intro v
    simp only [M.pure_bind]
    rw [extract_shift (eval ctx x) x (evalThunks ctx args) args none (some tv) rest 0 hrest]

/-- every built-in that operates on a receiver has exactly that shape -/
theorem builtin_receiver_shapes (b : Builtin) :
    (∃ ty rest, b.sig = .this ty :: rest ∧ positionalOnly rest = true) ∨
    positionalOnly b.sig = true ∨ b.sig = [.allArgs] := by
  cases b <;> first
    | (left; exact ⟨_, _, rfl, rfl⟩)
    | (right; left; rfl)
    | (right; right; rfl)

/-- a host function is invoked only with parameters of its declared shapes, in declaration
order: whatever `extract` hands to the body matches the signature (each value is what
`FromValue` produced for that parameter type), otherwise the body is not reached -/
theorem host_receives_declared_types (this : Option Value) (thunks : List (EvalM Value))
    (argEs : List Expr) (hth : ∀ t ∈ thunks, Sat t Any Any) (sig : List Extractor) :
    Sat (extract this thunks argEs sig 0) (fun ps => C02.MatchesSig sig ps) Any :=
  C02.extract_sat this thunks argEs hth sig 0

/-- a missing positional argument is an `InvalidArgumentCount` error; the function body is not
invoked (no log entry) -/
theorem missing_argument_is_error (ctx : Ctx) (name : String) (t : ExtTy) (rest : List Extractor)
    (body : HostBody) (st : St Value) :
    applyFn ctx name (.host (.pos t :: rest) body) none [] [] st = (.err .badArgc, st) := by
  simp [applyFn, extract, M.throw, bind, M.bind]

/-- a missing receiver/first argument is `MissingArgumentOrTarget` -/
theorem missing_target_is_error (ctx : Ctx) (name : String) (t : ExtTy) (rest : List Extractor)
    (body : HostBody) (st : St Value) :
    applyFn ctx name (.host (.this t :: rest) body) none [] [] st = (.err .missingTarget, st) := by
  simp [applyFn, extract, M.throw, bind, M.bind]

/-- a wrongly typed argument is an `UnexpectedType` error, never a coercion: `FromValue`
succeeds only on the declared kind and then returns the value unchanged -/
theorem fromValue_exact (t : ExtTy) (v w : Value) (h : fromValue t v = .ok w) : w = v := by
  cases t <;> cases v <;> simp [fromValue] at h <;> (try exact h.symm) <;> (try (cases h; rfl))

theorem fromValue_mismatch_is_error (t : ExtTy) (v : Value) :
    (∃ w, fromValue t v = .ok w) ∨ fromValue t v = .err .badType := by
  cases t <;> cases v <;> simp [fromValue]

/-- a host function registered under a built-in's name replaces it (later registration wins) -/
theorem registered_name_replaces (fns : List (String × FnKind)) (n : String) (k : FnKind) :
    Ctx.lookupFn ((n, k) :: fns) n = some k := by
  simp [Ctx.lookupFn]

/-- … and leaves every other name alone -/
theorem registration_leaves_others (fns : List (String × FnKind)) (n m : String) (k : FnKind)
    (h : n ≠ m) : Ctx.lookupFn ((n, k) :: fns) m = Ctx.lookupFn fns m := by
  have : (n == m) = false := by simp [h]
  simp [Ctx.lookupFn, this]

/-! ### non-vacuity: `size` in both call styles -/
example :
    let ctx : Ctx := { fns := [("size", .builtin .size)] }
    eval ctx (.mcall "size" (.lit (.list [.int 1])) []) = eval ctx (.call "size" [.lit (.list [.int 1])]) := by
  intro ctx
  apply receiver_style_equiv ctx "size" _ [] (.builtin .size) .value []
  · simp [ctx, Ctx.getFunction, Ctx.lookupFn]
  · rfl
  · rfl
  · simp [condName, binOpOfName, unOpOfName]

end Cel.Props.C20
