import CelModel.Serde
import CelModel.Cmp
import CelModel.Lemmas.SerdeLemmas
/-!
# C17 — host data converts to CEL values without loss of structure
# C18 — exporting a CEL value to JSON is total and faithful  (see `C18.lean`)

`Serde.toValue` models `ser.rs`'s `Serializer` / `KeySerializer` / the wrapper types,
`Serde.serdeJson` models `serde_json::to_value` on the same data (third-party, modelled).
Helper lemmas are in `CelModel/Lemmas/SerdeLemmas.lean` and above the theorems that use them.
-/
namespace Cel.Props.C17
open Cel Cel.Serde Cel.Serde.Lemmas

/-! ## shape -/

/-- sequences, tuples and tuple structs become lists of the converted elements, in order -/
theorem seq_like_to_list (ds : List Data) (name : String) :
    toValue (.seq ds) = (toValues ds).map .list ∧
    toValue (.tuple ds) = (toValues ds).map .list ∧
    toValue (.tupleStruct name ds) = (toValues ds).map .list := by
  refine ⟨?_, ?_, ?_⟩ <;> rw [toValue]

theorem toValues_elementwise (ds : List Data) (vs : List Value) (h : toValues ds = .ok vs) :
    vs.length = ds.length ∧ ∀ i (hi : i < ds.length) (hj : i < vs.length), toValue ds[i] = .ok vs[i] := by
  induction ds generalizing vs with
  | nil =>
    rw [toValues] at h
    cases h
    exact ⟨rfl, fun i hi => absurd hi (Nat.not_lt_zero _)⟩
  | cons d ds ih =>
    rw [toValues] at h
    cases hd : toValue d with
    | error e => rw [hd] at h; cases h
    | ok v =>
      rw [hd] at h
      cases hds : toValues ds with
      | error e => rw [hds] at h; cases h
      | ok vs' =>
        rw [hds] at h
        cases h
        obtain ⟨hl, hel⟩ := ih vs' hds
        refine ⟨by simp [hl], ?_⟩
        intro i hi hj
        cases i with
        | zero => simpa using hd
        | succ i =>
          simp only [List.getElem_cons_succ]
          exact hel i (by simpa using hi) (by simpa using hj)

/-- the first failing element aborts the conversion with its error -/
theorem toValues_error (ds : List Data) (e : SerErr) :
    toValues ds = .error e ↔ ∃ i, ∃ hi : i < ds.length, toValue ds[i] = .error e ∧
      ∀ j (hj : j < i), ∃ v, toValue (ds[j]'(Nat.lt_trans hj hi)) = .ok v := by
  induction ds with
  | nil =>
    rw [toValues]
    constructor
    · intro h; cases h
    · rintro ⟨i, hi, _⟩; exact absurd hi (Nat.not_lt_zero _)
  | cons d ds ih =>
    rw [toValues]
    cases hd : toValue d with
    | error e' =>
      constructor
      · intro h
        cases h
        exact ⟨0, by simp, by simpa using hd, fun j hj => absurd hj (Nat.not_lt_zero _)⟩
      · rintro ⟨i, hi, hi1, hi2⟩
        cases i with
        | zero =>
          simp only [List.getElem_cons_zero] at hi1
          rw [hd] at hi1; cases hi1; rfl
        | succ i =>
          obtain ⟨v, hv⟩ := hi2 0 (Nat.succ_pos _)
          simp only [List.getElem_cons_zero] at hv
          rw [hd] at hv; cases hv
    | ok v =>
      simp only []
      cases hds : toValues ds with
      | error e' =>
        simp only []
        constructor
        · intro h
          cases h
          obtain ⟨i, hi, hi1, hi2⟩ := ih.1 hds
          refine ⟨i + 1, by simpa using hi, by simpa using hi1, ?_⟩
          intro j hj
          cases j with
          | zero => exact ⟨v, by simpa using hd⟩
          | succ j =>
            simp only [List.getElem_cons_succ]
            exact hi2 j (by omega)
        · rintro ⟨i, hi, hi1, hi2⟩
          cases i with
          | zero =>
            simp only [List.getElem_cons_zero] at hi1
            rw [hd] at hi1; cases hi1
          | succ i =>
            simp only [List.getElem_cons_succ] at hi1
            have : toValues ds = .error e := by
              rw [ih]
              refine ⟨i, by simpa using hi, hi1, ?_⟩
              intro j hj
              have := hi2 (j + 1) (by omega)
              simpa using this
            rw [hds] at this
            cases this; rfl
      | ok vs =>
        simp only []
        constructor
        · intro h; cases h
        · rintro ⟨i, hi, hi1, hi2⟩
          cases i with
          | zero =>
            simp only [List.getElem_cons_zero] at hi1
            rw [hd] at hi1; cases hi1
          | succ i =>
            simp only [List.getElem_cons_succ] at hi1
            have : toValues ds = .error e := by
              rw [ih]
              refine ⟨i, by simpa using hi, hi1, ?_⟩
              intro j hj
              have := hi2 (j + 1) (by omega)
              simpa using this
            rw [hds] at this
            cases this

/-- scalars: signed integers become int, unsigned uint, floats double, bool bool, char and
strings string, bytes bytes, unit / none / unit structs null, `some x` is `x`, unit variants
their name -/
theorem scalars_shape (i : Int) (b : Bool) (bits : UInt64) (c : Char) (s : Str) (bs : List UInt8)
    (n v : String) (d : Data) :
    toValue (.int i) = .ok (.int i) ∧ toValue (.uint i) = .ok (.uint i) ∧
    toValue (.bool b) = .ok (.bool b) ∧ toValue (.float bits) = .ok (.dbl bits) ∧
    toValue (.char c) = .ok (.str [c]) ∧ toValue (.str s) = .ok (.str s) ∧
    toValue (.bytes bs) = .ok (.bytes bs) ∧ toValue .unit = .ok .null ∧ toValue .none = .ok .null ∧
    toValue (.unitStruct n) = .ok .null ∧ toValue (.some d) = toValue d ∧
    toValue (.newtypeStruct n d) = toValue d ∧ toValue (.unitVariant n v) = .ok (.str v.toList) := by
  refine ⟨?_, ?_, ?_, ?_, ?_, ?_, ?_, ?_, ?_, ?_, ?_, ?_, ?_⟩ <;> rw [toValue]

/-- data-carrying variants become single-entry maps keyed by the variant name -/
theorem variants_single_entry_map (n v : String) (d : Data) (ds : List Data)
    (fs : List (String × Data)) (x : Value) (xs : List Value) (m : MapV)
    (hd : toValue d = .ok x) (hds : toValues ds = .ok xs) (hfs : toFields fs [] = .ok m) :
    toValue (.newtypeVariant n v d) = .ok (.map [(.str v.toList, x)]) ∧
    toValue (.tupleVariant n v ds) = .ok (.map [(.str v.toList, .list xs)]) ∧
    toValue (.structVariant n v fs) = .ok (.map [(.str v.toList, .map m)]) := by
  refine ⟨?_, ?_, ?_⟩
  · rw [toValue, hd]
  · rw [toValue, hds]
  · rw [toValue, hfs]

theorem toFields_find (fs : List (String × Data)) : ∀ (acc m : MapV), toFields fs acc = .ok m →
    (∀ f d, fs.reverse.find? (fun p => p.1 == f) = some (f, d) →
        ∃ v, toValue d = .ok v ∧ MapV.find? m (.str f.toList) = some v) ∧
    (∀ f, fs.reverse.find? (fun p => p.1 == f) = none →
        MapV.find? m (.str f.toList) = MapV.find? acc (.str f.toList)) := by
  induction fs with
  | nil =>
    intro acc m h
    rw [toFields] at h
    cases h
    exact ⟨fun f d hf => by simp at hf, fun f _ => rfl⟩
  | cons p rest ih =>
    obtain ⟨g, x⟩ := p
    intro acc m h
    rw [toFields] at h
    cases hx : toValue x with
    | error e => rw [hx] at h; cases h
    | ok vx =>
      rw [hx] at h
      simp only [] at h
      obtain ⟨ih1, ih2⟩ := ih _ _ h
      constructor
      · intro f d hf
        simp only [List.reverse_cons, List.find?_append] at hf
        cases hr : rest.reverse.find? (fun p => p.1 == f) with
        | some q =>
          rw [hr] at hf
          simp only [Option.some_or] at hf
          cases hf
          exact ih1 f d hr
        | none =>
          rw [hr] at hf
          simp only [Option.none_or] at hf
          by_cases hg : g = f
          · subst hg
            simp only [List.find?_cons, beq_self_eq_true] at hf
            cases hf
            refine ⟨vx, hx, ?_⟩
            rw [ih2 g hr, insert_find]
            simp
          · simp [hg] at hf
      · intro f hf
        simp only [List.reverse_cons, List.find?_append] at hf
        cases hr : rest.reverse.find? (fun p => p.1 == f) with
        | some q => rw [hr] at hf; simp at hf
        | none =>
          rw [hr] at hf
          simp only [Option.none_or] at hf
          have hg : ¬ g = f := by
            intro e; subst e; simp at hf
          rw [ih2 f hr, insert_find]
          have : ¬ (Key.str f.toList = Key.str g.toList) := by
            intro e
            injection e with e
            exact hg (String.toList_injective e).symm
          simp [this]

/-- structs become maps keyed by field name: every field written is present with its converted
value (the last one wins if a name repeats) -/
theorem struct_fields_present (fs : List (String × Data)) (m : MapV) (h : toFields fs [] = .ok m)
    (f : String) (d : Data) (hlast : fs.reverse.find? (fun p => p.1 == f) = some (f, d)) :
    ∃ v, toValue d = .ok v ∧ MapV.find? m (.str f.toList) = some v :=
  (toFields_find fs [] m h).1 f d hlast

/-! ## keys -/

/-- the kinds of data `KeySerializer` accepts: int, uint, bool, char, string, unit variant —
transparently through `Some` and newtype structs -/
def KeyLike : Data → Bool
  | .bool _ => true | .int _ => true | .uint _ => true | .char _ => true | .str _ => true
  | .unitVariant _ _ => true
  | .some d => KeyLike d
  | .newtypeStruct _ d => KeyLike d
  | _ => false

theorem key_serializer_accepts_exactly (d : Data) : (∃ k, keyOf d = .ok k) ↔ KeyLike d = true := by
  fun_induction KeyLike d <;> try (simp_all [keyOf]; done)
  rename_i t _ _ _ _ _ _ _ _
  cases t <;> simp_all [keyOf]

/-- a map with an unsupported key fails with an error (never a panic, never a dropped entry) -/
theorem map_with_bad_key_is_error (k v : Data) (rest : List (Data × Data)) (acc : MapV)
    (h : KeyLike k = false) : ∃ e, toEntries ((k, v) :: rest) acc = .error e := by
  rw [toEntries]
  cases hk : keyOf k with
  | error e => exact ⟨e, rfl⟩
  | ok key =>
    have := (key_serializer_accepts_exactly k).1 ⟨key, hk⟩
    rw [h] at this; cases this

/-! ## commutation with serde_json on JSON-representable data -/

mutual
/-- JSON-representable: no bytes, no wide integers, no wrapper types; map keys string-like
(string, char, unit variant) and pairwise distinct; struct field names pairwise distinct -/
def JsonNative : Data → Bool
  | .bytes _ => false
  | .wide => false
  | .celDuration _ => false
  | .celTimestamp _ _ => false
  | .some d => JsonNative d
  | .newtypeStruct _ d => JsonNative d
  | .newtypeVariant _ _ d => JsonNative d
  | .seq ds => JsonNativeList ds
  | .tuple ds => JsonNativeList ds
  | .tupleStruct _ ds => JsonNativeList ds
  | .tupleVariant _ _ ds => JsonNativeList ds
  | .map es => JsonNativeEntries es
  | .struct _ fs => JsonNativeFields fs
  | .structVariant _ _ fs => JsonNativeFields fs
  | _ => true
def JsonNativeList : List Data → Bool
  | [] => true
  | d :: ds => JsonNative d && JsonNativeList ds
def JsonNativeEntries : List (Data × Data) → Bool
  | [] => true
  | (k, v) :: es =>
    (match k with | .str _ => true | .char _ => true | .unitVariant _ _ => true | _ => false)
      && JsonNative v && JsonNativeEntries es
def JsonNativeFields : List (String × Data) → Bool
  | [] => true
  | (_, v) :: fs => JsonNative v && JsonNativeFields fs
end

mutual
theorem comm_data : ∀ d : Data, JsonNative d = true →
    ∃ v j, toValue d = .ok v ∧ toJson v = .ok j ∧ serdeJson d = some j
  | .bool b, _ => ⟨_, _, by rw [toValue], by rw [toJson], by rw [serdeJson]⟩
  | .int i, _ => ⟨_, _, by rw [toValue], by rw [toJson], by rw [serdeJson]⟩
  | .uint n, _ => ⟨_, _, by rw [toValue], by rw [toJson], by rw [serdeJson]⟩
  | .wide, h => by simp [JsonNative] at h
  | .float b, _ => ⟨_, _, by rw [toValue], by rw [toJson], by rw [serdeJson]⟩
  | .char c, _ => ⟨_, _, by rw [toValue], by rw [toJson], by rw [serdeJson]⟩
  | .str s, _ => ⟨_, _, by rw [toValue], by rw [toJson], by rw [serdeJson]⟩
  | .bytes b, h => by simp [JsonNative] at h
  | .none, _ => ⟨_, _, by rw [toValue], by rw [toJson], by rw [serdeJson]⟩
  | .some d, h => by
    rw [JsonNative] at h
    rw [toValue, serdeJson]
    exact comm_data d h
  | .unit, _ => ⟨_, _, by rw [toValue], by rw [toJson], by rw [serdeJson]⟩
  | .unitStruct _, _ => ⟨_, _, by rw [toValue], by rw [toJson], by rw [serdeJson]⟩
  | .unitVariant _ _, _ => ⟨_, _, by rw [toValue], by rw [toJson], by rw [serdeJson]⟩
  | .newtypeStruct _ d, h => by
    rw [JsonNative] at h
    rw [toValue, serdeJson]
    exact comm_data d h
  | .newtypeVariant _ v d, h => by
    rw [JsonNative] at h
    obtain ⟨x, j, h1, h2, h3⟩ := comm_data d h
    refine ⟨.map [(.str v.toList, x)], .obj [(v.toList, j)], ?_, ?_, ?_⟩
    · rw [toValue, h1]
    · rw [toJson, toJsonEntries, h2]
      simp [toJsonEntries, objInsert, Key.toText, Except.map]
    · rw [serdeJson, h3]; rfl
  | .seq ds, h => by
    rw [JsonNative] at h
    obtain ⟨xs, js, h1, h2, h3⟩ := comm_list ds h
    refine ⟨.list xs, .arr js, ?_, ?_, ?_⟩
    · rw [toValue, h1]; rfl
    · rw [toJson, h2]; rfl
    · rw [serdeJson, h3]; rfl
  | .tuple ds, h => by
    rw [JsonNative] at h
    obtain ⟨xs, js, h1, h2, h3⟩ := comm_list ds h
    refine ⟨.list xs, .arr js, ?_, ?_, ?_⟩
    · rw [toValue, h1]; rfl
    · rw [toJson, h2]; rfl
    · rw [serdeJson, h3]; rfl
  | .tupleStruct _ ds, h => by
    rw [JsonNative] at h
    obtain ⟨xs, js, h1, h2, h3⟩ := comm_list ds h
    refine ⟨.list xs, .arr js, ?_, ?_, ?_⟩
    · rw [toValue, h1]; rfl
    · rw [toJson, h2]; rfl
    · rw [serdeJson, h3]; rfl
  | .tupleVariant _ v ds, h => by
    rw [JsonNative] at h
    obtain ⟨xs, js, h1, h2, h3⟩ := comm_list ds h
    refine ⟨.map [(.str v.toList, .list xs)], .obj [(v.toList, .arr js)], ?_, ?_, ?_⟩
    · rw [toValue, h1]
    · rw [toJson, toJsonEntries, toJson, h2]
      simp [toJsonEntries, objInsert, Key.toText, Except.map]
    · rw [serdeJson, h3]; rfl
  | .map es, h => by
    rw [JsonNative] at h
    obtain ⟨m, jm, h1, h2, h3, h4⟩ := comm_entries es h [] [] (by simp [Rel]) (by simp)
    refine ⟨.map m, .obj jm, ?_, ?_, ?_⟩
    · rw [toValue, h1]; rfl
    · rw [toJson, rel_export m jm [] h3 (by simpa using h4)]; rfl
    · rw [serdeJson, h2]; rfl
  | .struct _ fs, h => by
    rw [JsonNative] at h
    obtain ⟨m, jm, h1, h2, h3, h4⟩ := comm_fields fs h [] [] (by simp [Rel]) (by simp)
    refine ⟨.map m, .obj jm, ?_, ?_, ?_⟩
    · rw [toValue, h1]; rfl
    · rw [toJson, rel_export m jm [] h3 (by simpa using h4)]; rfl
    · rw [serdeJson, h2]; rfl
  | .structVariant _ v fs, h => by
    rw [JsonNative] at h
    obtain ⟨m, jm, h1, h2, h3, h4⟩ := comm_fields fs h [] [] (by simp [Rel]) (by simp)
    refine ⟨.map [(.str v.toList, .map m)], .obj [(v.toList, .obj jm)], ?_, ?_, ?_⟩
    · rw [toValue, h1]
    · rw [toJson, toJsonEntries, toJson, rel_export m jm [] h3 (by simpa using h4)]
      simp [toJsonEntries, objInsert, Key.toText, Except.map]
    · rw [serdeJson, h2]; rfl
  | .celDuration _, h => by simp [JsonNative] at h
  | .celTimestamp _ _, h => by simp [JsonNative] at h
theorem comm_list : ∀ ds : List Data, JsonNativeList ds = true →
    ∃ vs js, toValues ds = .ok vs ∧ toJsons vs = .ok js ∧ serdeJsons ds = some js
  | [], _ => ⟨[], [], by rw [toValues], by rw [toJsons], by rw [serdeJsons]⟩
  | d :: ds, h => by
    rw [JsonNativeList, Bool.and_eq_true] at h
    obtain ⟨x, j, h1, h2, h3⟩ := comm_data d h.1
    obtain ⟨xs, js, g1, g2, g3⟩ := comm_list ds h.2
    refine ⟨x :: xs, j :: js, ?_, ?_, ?_⟩
    · rw [toValues, h1, g1]
    · rw [toJsons, h2, g2]
    · rw [serdeJsons, h3, g3]
theorem comm_entries : ∀ es : List (Data × Data), JsonNativeEntries es = true →
    ∀ (acc : MapV) (jacc : List (Str × Json)), Rel acc jacc → (jacc.map (·.1)).Nodup →
    ∃ m jm, toEntries es acc = .ok m ∧ serdeJsonEntries es jacc = some jm ∧ Rel m jm ∧
      (jm.map (·.1)).Nodup
  | [], _, acc, jacc, hr, hn => ⟨acc, jacc, by rw [toEntries], by rw [serdeJsonEntries], hr, hn⟩
  | (k, v) :: es, h, acc, jacc, hr, hn => by
    simp only [JsonNativeEntries, Bool.and_eq_true] at h
    obtain ⟨⟨hk, hv⟩, hes⟩ := h
    obtain ⟨x, j, h1, h2, h3⟩ := comm_data v hv
    have key : ∃ s, keyOf k = .ok (.str s) ∧ jsonKeyOf k = some s := by
      cases k <;> simp at hk
      · exact ⟨_, by rw [keyOf], by rw [jsonKeyOf]⟩
      · exact ⟨_, by rw [keyOf], by rw [jsonKeyOf]⟩
      · exact ⟨_, by rw [keyOf], by rw [jsonKeyOf]⟩
    obtain ⟨s, k1, k2⟩ := key
    rw [toEntries, serdeJsonEntries, k1, k2, h1, h3]
    exact comm_entries es hes _ _ (rel_insert s x j h2 acc jacc hr) (objInsert_nodup jacc s j hn)
theorem comm_fields : ∀ fs : List (String × Data), JsonNativeFields fs = true →
    ∀ (acc : MapV) (jacc : List (Str × Json)), Rel acc jacc → (jacc.map (·.1)).Nodup →
    ∃ m jm, toFields fs acc = .ok m ∧ serdeJsonFields fs jacc = some jm ∧ Rel m jm ∧
      (jm.map (·.1)).Nodup
  | [], _, acc, jacc, hr, hn => ⟨acc, jacc, by rw [toFields], by rw [serdeJsonFields], hr, hn⟩
  | (f, v) :: fs, h, acc, jacc, hr, hn => by
    rw [JsonNativeFields, Bool.and_eq_true] at h
    obtain ⟨hv, hfs⟩ := h
    obtain ⟨x, j, h1, h2, h3⟩ := comm_data v hv
    rw [toFields, serdeJsonFields, h1, h3]
    exact comm_fields fs hfs _ _ (rel_insert f.toList x j h2 acc jacc hr) (objInsert_nodup jacc f.toList j hn)
end

/-- for JSON-representable data, converting to a CEL value and exporting to JSON equals
serialising directly with serde_json -/
theorem to_value_commutes_with_json (d : Data) (h : JsonNative d = true) :
    (match toValue d with
     | .ok v => (match toJson v with | .ok j => some j | .error _ => none)
     | .error _ => none) = serdeJson d := by
  obtain ⟨v, j, h1, h2, h3⟩ := comm_data d h
  rw [h1, h3]
  simp only [h2]

/-! ### non-vacuity -/
example : toValue (.struct "P" [("x", .int 1), ("y", .some (.uint 2))]) =
    .ok (.map [(.str "x".toList, .int 1), (.str "y".toList, .uint 2)]) := by
  simp [toValue, toFields, MapV.insert, Except.map]
example : JsonNative (.map [(.str "a".toList, .seq [.int 1, .none]), (.char 'b', .float 0x3ff8000000000000)]) = true := by
  simp [JsonNative, JsonNativeEntries, JsonNativeList]

end Cel.Props.C17
