import CelModel.Lemmas.Monad
import CelModel.Lemmas.Sat
import CelModel.Lemmas.Obs
import CelModel.Macros
import CelModel.Props.C06
/-!
# C10 — comprehension macros compute their defining folds

Statements only (to be proved). `ObsEq` is equality of outcome and host-call log from every
start state; the step counter is bookkeeping that no computation ever reads.
-/
namespace Cel.Props.C10
open Cel Cel.Macros

/-- observational equality: same outcome and same host-call log from every state -/
def ObsEq (m1 m2 : EvalM α) : Prop :=
  ∀ s, (m1 s).1 = (m2 s).1 ∧ (m1 s).2.log = (m2 s).2.log

/-- the elements a macro ranges over: list elements, or map keys -/
def rangeItems : Value → Option (List Value)
  | .list xs => some xs
  | .map m => some (m.map (fun kv => kv.1.toValue))
  | _ => none

/-- evaluate the range, then run `k` over its elements; a non-iterable range is an error -/
def overRange (ctx : Ctx) (range : Expr) (k : List Value → EvalM Value) : EvalM Value := do
  let r ← eval ctx range
  match rangeItems r with
  | none => M.throw .badTarget
  | some xs => k xs

/-- the macro body with the iteration variable bound to `x`, in the macro's own scope whose
accumulator currently holds `acc` -/
def bodyAt (ctx : Ctx) (v : String) (body : Expr) (acc x : Value) : EvalM Value :=
  eval (ctx.push [(accu, acc), (v, x)]) body

/-- conjunction in order, stopping at the first falsy element; an error on a reached element aborts -/
def allFold (b : Value → EvalM Value) : List Value → EvalM Value
  | [] => pure (.bool true)
  | x :: xs => do
    let r ← b x
    if r.truthy then allFold b xs else pure (.bool false)

/-- disjunction in order, stopping at the first truthy element (whose value is the result) -/
def existsFold (b : Value → Value → EvalM Value) : List Value → Value → EvalM Value
  | [], acc => pure acc
  | x :: xs, acc => do
    let r ← b acc x
    if r.truthy then pure r else existsFold b xs r

/-- number of satisfying elements; every element is visited -/
def countFold (b : Value → Value → EvalM Value) : List Value → Int → EvalM Int
  | [], n => pure n
  | x :: xs, n => do
    let r ← b (.int n) x
    countFold b xs (if r.truthy then n + 1 else n)

/-- transformed elements in order -/
def mapFold (f : Value → Value → EvalM Value) : List Value → List Value → EvalM (List Value)
  | [], acc => pure acc
  | x :: xs, acc => do
    let y ← f (.list acc) x
    mapFold f xs (acc ++ [y])

/-- transformed elements of those that satisfy the predicate, in order -/
def mapFilterFold (p f : Value → Value → EvalM Value) :
    List Value → List Value → EvalM (List Value)
  | [], acc => pure acc
  | x :: xs, acc => do
    let c ← p (.list acc) x
    if c.truthy then do
      let y ← f (.list acc) x
      mapFilterFold p f xs (acc ++ [y])
    else mapFilterFold p f xs acc

/-- satisfying elements in order -/
def filterFold (p : Value → Value → EvalM Value) : List Value → List Value → EvalM (List Value)
  | [], acc => pure acc
  | x :: xs, acc => do
    let c ← p (.list acc) x
    filterFold p xs (if c.truthy then acc ++ [x] else acc)


/-! ## Helper lemmas -/

theorem Obs.obsEq {m1 m2 : EvalM α} (h : Obs m1 m2) : ObsEq m1 m2 := fun s => h s s rfl

theorem throw_bind (e : ErrC) (f : α → EvalM γ) : (M.throw e : EvalM α) >>= f = M.throw e := rfl

/-! ### single nodes, up to ticks -/

theorem eval_call_fn (ctx : Ctx) (f : String) (args : List Expr) :
    eval ctx (.call f args) = (M.tick >>= fun _ => callNode ctx f none args (evalThunks ctx args)) := by
  rw [eval]

theorem lit_obs (ctx : Ctx) (v : Value) : Obs (eval ctx (.lit v)) (pure v) := by
  rw [eval]
  exact Obs.tick_left Obs.pure

theorem emptyList_obs (ctx : Ctx) : Obs (eval ctx (.list [])) (pure (.list [])) := by
  rw [eval]
  apply Obs.tick_left
  simp only [evalList, M.pure_bind]
  exact Obs.pure

theorem list1_obs (ctx : Ctx) (f : Expr) :
    Obs (eval ctx (.list [f])) (eval ctx f >>= fun y => pure (.list [y])) := by
  rw [eval]
  apply Obs.tick_left
  simp only [evalList, M.pure_bind, M.bind_assoc]
  exact Obs.bind (eval_obs _ _) (fun _ => Obs.pure)

theorem unOp_nsf : unOpOfName "@not_strictly_false" = some .notStrictlyFalse := by simp [unOpOfName]
theorem unOp_not : unOpOfName "!_" = some .not := by simp [unOpOfName]
theorem binOp_add : binOpOfName "_+_" = some .add := by simp [binOpOfName]
theorem binOp_eq : binOpOfName "_==_" = some .eq := by simp [binOpOfName]

theorem un_obs {ctx : Ctx} {f : String} {op : UnOp} {e : Expr} {a : Value}
    (hop : unOpOfName f = some op) (h : Obs (eval ctx e) (pure a)) :
    Obs (eval ctx (.call f [e])) (M.lift (applyUn op a)) := by
  rw [eval_call_fn]
  apply Obs.tick_left
  simp only [evalThunks, callNode, hop]
  exact Obs.bind_pure_left h Obs.lift

theorem and_obs {ctx : Ctx} {a b : Expr} {va : Value} (h : Obs (eval ctx a) (pure va)) :
    Obs (eval ctx (.call "_&&_" [a, b]))
      (if !va.truthy then pure (.bool false) else eval ctx b >>= fun r => pure (.bool r.truthy)) := by
  rw [eval_call_fn]
  apply Obs.tick_left
  simp only [evalThunks, callNode, C06.binOp_and]
  apply Obs.bind_pure_left h
  exact Obs.ite (fun _ => Obs.pure) (fun _ => Obs.bind (eval_obs _ _) (fun _ => Obs.pure))

theorem or_obs {ctx : Ctx} {a b : Expr} {va : Value} (h : Obs (eval ctx a) (pure va)) :
    Obs (eval ctx (.call "_||_" [a, b])) (if va.truthy then pure va else eval ctx b) := by
  rw [eval_call_fn]
  apply Obs.tick_left
  simp only [evalThunks, callNode, C06.binOp_or]
  apply Obs.bind_pure_left h
  exact Obs.ite (fun _ => Obs.pure) (fun _ => eval_obs _ _)

theorem cond_obs {ctx : Ctx} {c x y : Expr} {X Y : EvalM Value}
    (hx : Obs (eval ctx x) X) (hy : Obs (eval ctx y) Y) :
    Obs (eval ctx (.call "_?_:_" [c, x, y]))
      (eval ctx c >>= fun cv => if cv.truthy then X else Y) := by
  rw [eval_call_fn]
  apply Obs.tick_left
  simp only [evalThunks, callNode, condName, beq_self_eq_true, if_true]
  apply Obs.bind (eval_obs _ _)
  intro cv
  exact Obs.ite (fun _ => hx) (fun _ => hy)

theorem add_obs {ctx : Ctx} {a b : Expr} {va : Value} {B : EvalM Value}
    (ha : Obs (eval ctx a) (pure va)) (hb : Obs (eval ctx b) B) :
    Obs (eval ctx (.call "_+_" [a, b])) (B >>= fun r => M.lift (applyBin .add va r)) := by
  rw [eval_call_fn]
  apply Obs.tick_left
  simp only [evalThunks, callNode, binOp_add]
  apply Obs.bind_pure_left ha
  exact Obs.bind hb (fun _ => Obs.lift)

theorem eq_obs {ctx : Ctx} {a b : Expr} {va vb : Value}
    (ha : Obs (eval ctx a) (pure va)) (hb : Obs (eval ctx b) (pure vb)) :
    Obs (eval ctx (.call "_==_" [a, b])) (pure (.bool (Value.eq va vb))) := by
  rw [eval_call_fn]
  apply Obs.tick_left
  simp only [evalThunks, callNode, binOp_eq]
  apply Obs.bind_pure_left ha
  apply Obs.bind_pure_left hb
  exact Obs.lift

/-! ### the macro scope -/

/-- the shapes the comprehension scope of a macro takes: before the first element, and after
an element `x` has been bound -/
def Shape (v : String) (sc : Scope) (acc : Value) : Prop :=
  sc = [(accu, acc)] ∨ ∃ x, sc = [(accu, acc), (v, x)]

theorem accu_ne {v : String} (hv : v ≠ accu) : (accu == v) = false := by
  simp only [beq_eq_false_iff_ne, ne_eq]
  exact fun h => hv h.symm

theorem Shape.insert {v : String} {sc : Scope} {acc : Value} (hv : v ≠ accu)
    (hs : Shape v sc acc) (x : Value) : Ctx.scopeInsert sc v x = [(accu, acc), (v, x)] := by
  have := accu_ne hv
  rcases hs with rfl | ⟨y, rfl⟩ <;> simp [Ctx.scopeInsert, this]

theorem insert_accu (v : String) (acc acc' x : Value) :
    Ctx.scopeInsert [(accu, acc), (v, x)] accu acc' = [(accu, acc'), (v, x)] := by
  simp [Ctx.scopeInsert]

theorem Shape.step (v : String) (acc x : Value) : Shape v [(accu, acc), (v, x)] acc :=
  Or.inr ⟨x, rfl⟩

theorem accu_obs (ctx : Ctx) {v : String} {sc : Scope} {acc : Value} (hs : Shape v sc acc) :
    Obs (eval (ctx.push sc) accuIdent) (pure acc) := by
  rw [accuIdent, eval]
  apply Obs.tick_left
  have : (ctx.push sc).getVariable accu = some acc := by
    rcases hs with rfl | ⟨x, rfl⟩ <;>
      simp [Ctx.getVariable, Ctx.push, Ctx.getVar, Ctx.lookupScope]
  rw [this]
  exact Obs.pure

theorem iter_obs (ctx : Ctx) {v : String} (hv : v ≠ accu) (acc x : Value) :
    Obs (eval (ctx.push [(accu, acc), (v, x)]) (.ident v)) (pure x) := by
  rw [eval]
  apply Obs.tick_left
  have : (ctx.push [(accu, acc), (v, x)]).getVariable v = some x := by
    simp [Ctx.getVariable, Ctx.push, Ctx.getVar, Ctx.lookupScope, accu_ne hv]
  rw [this]
  exact Obs.pure

/-! ### the comprehension node -/

/-- the loop followed by the result expression, as one computation -/
def loopRes (ctx : Ctx) (v : String) (cond step result : Expr) (xs : List Value) (sc : Scope) :
    EvalM Value :=
  loopG v accu (fun sc => eval (ctx.push sc) cond) (fun sc => eval (ctx.push sc) step) xs sc
    >>= fun sc => eval (ctx.push sc) result

theorem loopRes_stable (ctx : Ctx) (v : String) (cond step result : Expr) (xs : List Value)
    (sc : Scope) : Obs (loopRes ctx v cond step result xs sc) (loopRes ctx v cond step result xs sc) :=
  (SI.bind (loopG_SI _ _ _ _ (fun _ => eval_SI _ _) (fun _ => eval_SI _ _) _ _)
    (fun _ => eval_SI _ _)).obs

theorem loopRes_nil (ctx : Ctx) (v : String) (cond step result : Expr) (sc : Scope) :
    loopRes ctx v cond step result [] sc = eval (ctx.push sc) result := by
  simp only [loopRes, loopG, M.pure_bind]

theorem loopRes_cons (ctx : Ctx) (v : String) (cond step result : Expr) (x : Value)
    (xs : List Value) (sc : Scope) :
    loopRes ctx v cond step result (x :: xs) sc =
      (eval (ctx.push sc) cond >>= fun c =>
        if !c.truthy then eval (ctx.push sc) result
        else eval (ctx.push (Ctx.scopeInsert sc v x)) step >>= fun acc =>
          loopRes ctx v cond step result xs (Ctx.scopeInsert (Ctx.scopeInsert sc v x) accu acc)) := by
  simp only [loopRes, loopG, M.bind_assoc]
  apply M.bind_congr
  intro c
  split
  · rw [M.pure_bind]
  · rw [M.bind_assoc]

/-- one loop iteration whose condition holds, in a macro scope -/
theorem loopRes_step (ctx : Ctx) {v : String} (hv : v ≠ accu) (cond step result : Expr) (x : Value)
    (xs : List Value) {sc : Scope} {acc c : Value} (hs : Shape v sc acc)
    (hc : Obs (eval (ctx.push sc) cond) (pure c)) (hct : c.truthy = true) {R : EvalM Value}
    (h : Obs (eval (ctx.push [(accu, acc), (v, x)]) step >>= fun acc' =>
          loopRes ctx v cond step result xs [(accu, acc'), (v, x)]) R) :
    Obs (loopRes ctx v cond step result (x :: xs) sc) R := by
  rw [loopRes_cons]
  apply Obs.bind_pure_left hc
  simp only [hct, Bool.not_true, Bool.false_eq_true, if_false, hs.insert hv, insert_accu]
  exact h

/-- one loop iteration whose condition fails -/
theorem loopRes_stop (ctx : Ctx) {v : String} (cond step result : Expr) (x : Value)
    (xs : List Value) {sc : Scope} {c : Value}
    (hc : Obs (eval (ctx.push sc) cond) (pure c)) (hct : c.truthy = false) {R : EvalM Value}
    (h : Obs (eval (ctx.push sc) result) R) :
    Obs (loopRes ctx v cond step result (x :: xs) sc) R := by
  rw [loopRes_cons]
  apply Obs.bind_pure_left hc
  simp only [hct, Bool.not_false, if_true]
  exact h

theorem comp_obs (ctx : Ctx) (v : String) (range init cond step result : Expr) (i : Value)
    (k : List Value → EvalM Value) (hinit : Obs (eval ctx init) (pure i))
    (hk : ∀ xs, Obs (loopRes ctx v cond step result xs [(accu, i)]) (k xs)) :
    Obs (eval ctx (.comp v range accu init cond step result)) (overRange ctx range k) := by
  rw [eval]
  apply Obs.tick_left
  apply Obs.bind_pure_left hinit
  unfold overRange
  apply Obs.bind (eval_obs ctx range)
  intro r
  cases r <;> simp only [rangeItems, throw_bind, M.pure_bind] <;>
    first
    | exact Obs.throw
    | exact hk _

/-- the step counter never influences evaluation: shifting it commutes with `eval` -/
theorem eval_steps_irrelevant (ctx : Ctx) (e : Expr) (s : St Value) (k : Nat) :
    eval ctx e { s with steps := s.steps + k } =
      ((eval ctx e s).1, { (eval ctx e s).2 with steps := (eval ctx e s).2.steps + k }) :=
  eval_SI e ctx s k

/-! ### `all` -/

theorem nsf_accu_obs (ctx : Ctx) {v : String} {sc : Scope} {acc : Value} (hs : Shape v sc acc) :
    Obs (eval (ctx.push sc) (.call "@not_strictly_false" [accuIdent]))
      (M.lift (applyUn .notStrictlyFalse acc)) :=
  un_obs unOp_nsf (accu_obs ctx hs)

theorem all_loop_false (ctx : Ctx) (v : String) (body : Expr) (xs : List Value) {sc : Scope}
    (hs : Shape v sc (.bool false)) :
    Obs (loopRes ctx v (.call "@not_strictly_false" [accuIdent]) (.call "_&&_" [accuIdent, body])
      accuIdent xs sc) (pure (.bool false)) := by
  cases xs with
  | nil => rw [loopRes_nil]; exact accu_obs ctx hs
  | cons x xs =>
    exact loopRes_stop ctx _ _ _ x xs (c := .bool false) (nsf_accu_obs ctx hs) rfl (accu_obs ctx hs)

theorem all_loop (ctx : Ctx) (v : String) (body : Expr) (hv : v ≠ accu) (xs : List Value) :
    ∀ sc, Shape v sc (.bool true) →
    Obs (loopRes ctx v (.call "@not_strictly_false" [accuIdent]) (.call "_&&_" [accuIdent, body])
      accuIdent xs sc) (allFold (bodyAt ctx v body (.bool true)) xs) := by
  induction xs with
  | nil => intro sc hs; rw [loopRes_nil, allFold]; exact accu_obs ctx hs
  | cons x xs ih =>
    intro sc hs
    rw [allFold]
    apply loopRes_step ctx hv _ _ _ x xs hs (c := .bool true) (nsf_accu_obs ctx hs) rfl
    have hstep : Obs (eval (ctx.push [(accu, .bool true), (v, x)]) (.call "_&&_" [accuIdent, body]))
        (bodyAt ctx v body (.bool true) x >>= fun r => pure (.bool r.truthy)) :=
      and_obs (accu_obs ctx (Shape.step v _ x))
    apply Obs.bind_map_left hstep
    intro r
    cases hr : r.truthy
    · simp only [Bool.false_eq_true, if_false]
      exact all_loop_false ctx v body xs (Shape.step v _ x)
    · simp only [if_true]
      exact ih _ (Shape.step v _ x)

theorem all_spec (ctx : Ctx) (v : String) (range body : Expr) (hv : v ≠ accu) :
    ObsEq (eval ctx (expandAll v range body))
      (overRange ctx range (allFold (bodyAt ctx v body (.bool true)))) := by
  apply Obs.obsEq
  unfold expandAll
  apply comp_obs ctx v range _ _ _ _ (.bool true) _ (lit_obs ctx _)
  intro xs
  exact all_loop ctx v body hv xs _ (Or.inl rfl)


/-! ### `exists` -/

theorem exists_cond_obs (ctx : Ctx) {v : String} {sc : Scope} {acc : Value} (hs : Shape v sc acc) :
    Obs (eval (ctx.push sc) (.call "@not_strictly_false" [.call "!_" [accuIdent]]))
      (pure (.bool (!acc.truthy))) := by
  have h1 : Obs (eval (ctx.push sc) (.call "!_" [accuIdent])) (pure (.bool (!acc.truthy))) :=
    un_obs unOp_not (accu_obs ctx hs)
  exact un_obs unOp_nsf h1

theorem exists_loop_stop (ctx : Ctx) (v : String) (body : Expr) (xs : List Value) {sc : Scope}
    {r : Value} (hs : Shape v sc r) (hr : r.truthy = true) :
    Obs (loopRes ctx v (.call "@not_strictly_false" [.call "!_" [accuIdent]])
      (.call "_||_" [accuIdent, body]) accuIdent xs sc) (pure r) := by
  cases xs with
  | nil => rw [loopRes_nil]; exact accu_obs ctx hs
  | cons x xs =>
    refine loopRes_stop ctx _ _ _ x xs (exists_cond_obs ctx hs) ?_ (accu_obs ctx hs)
    show (!r.truthy) = false
    simp [hr]

theorem exists_loop (ctx : Ctx) (v : String) (body : Expr) (hv : v ≠ accu) (xs : List Value) :
    ∀ sc acc, Shape v sc acc → acc.truthy = false →
    Obs (loopRes ctx v (.call "@not_strictly_false" [.call "!_" [accuIdent]])
      (.call "_||_" [accuIdent, body]) accuIdent xs sc) (existsFold (bodyAt ctx v body) xs acc) := by
  induction xs with
  | nil => intro sc acc hs _; rw [loopRes_nil, existsFold]; exact accu_obs ctx hs
  | cons x xs ih =>
    intro sc acc hs hacc
    rw [existsFold]
    apply loopRes_step ctx hv _ _ _ x xs hs (exists_cond_obs ctx hs)
      (by show (!acc.truthy) = true; simp [hacc])
    have hstep : Obs (eval (ctx.push [(accu, acc), (v, x)]) (.call "_||_" [accuIdent, body]))
        (bodyAt ctx v body acc x) := by
      unfold bodyAt
      have := or_obs (b := body) (accu_obs ctx (Shape.step v acc x))
      simpa only [hacc, Bool.false_eq_true, if_false] using this
    apply Obs.bind hstep
    intro r
    cases hr : r.truthy
    · simp only [Bool.false_eq_true, if_false]
      exact ih _ r (Shape.step v _ x) hr
    · simp only [if_true]
      exact exists_loop_stop ctx v body xs (Shape.step v _ x) hr

theorem exists_spec (ctx : Ctx) (v : String) (range body : Expr) (hv : v ≠ accu) :
    ObsEq (eval ctx (expandExists v range body))
      (overRange ctx range (fun xs => existsFold (bodyAt ctx v body) xs (.bool false))) := by
  apply Obs.obsEq
  unfold expandExists
  apply comp_obs ctx v range _ _ _ _ (.bool false) _ (lit_obs ctx _)
  intro xs
  exact exists_loop ctx v body hv xs _ _ (Or.inl rfl) rfl


/-! ### `exists_one` -/

theorem ite_pure (c : Bool) (a b : α) :
    (if c = true then (pure a : EvalM α) else pure b) = pure (if c = true then a else b) := by
  cases c <;> rfl

theorem add_one_ok (n : Int) (h0 : 0 ≤ n) (h1 : n + 1 ≤ i64Max) :
    applyBin .add (.int n) (.int 1) = .ok (.int (n + 1)) := by
  have : inI64 (n + 1) = true := by
    simp only [inI64, Bool.and_eq_true, decide_eq_true_eq]
    constructor
    · unfold i64Min; omega
    · exact h1
  simp [applyBin, arith, intArith, chk, this, Outcome.map]

theorem int_eq_one (n : Int) : Value.eq (.int n) (.int 1) = (n == 1) := by
  rw [Value.eq]

theorem one_loop (ctx : Ctx) (v : String) (body : Expr) (hv : v ≠ accu) (xs : List Value) :
    ∀ sc n, Shape v sc (.int n) → 0 ≤ n → n + (xs.length : Int) ≤ i64Max →
    Obs (loopRes ctx v (.lit (.bool true))
        (.call "_?_:_" [body, .call "_+_" [accuIdent, .lit (.int 1)], accuIdent])
        (.call "_==_" [accuIdent, .lit (.int 1)]) xs sc)
      (countFold (bodyAt ctx v body) xs n >>= fun n => pure (.bool (n == 1))) := by
  induction xs with
  | nil =>
    intro sc n hs _ _
    rw [loopRes_nil, countFold, M.pure_bind, ← int_eq_one]
    exact eq_obs (accu_obs ctx hs) (lit_obs _ _)
  | cons x xs ih =>
    intro sc n hs h0 h1
    have h1' : n + 1 + (xs.length : Int) ≤ i64Max := by
      rw [List.length_cons] at h1; omega
    rw [countFold, M.bind_assoc]
    apply loopRes_step ctx hv _ _ _ x xs hs (lit_obs _ _) rfl
    have hplus : Obs (eval (ctx.push [(accu, .int n), (v, x)])
        (.call "_+_" [accuIdent, .lit (.int 1)])) (pure (.int (n + 1))) := by
      have := add_obs (accu_obs ctx (Shape.step v (.int n) x)) (lit_obs _ (.int 1))
      rw [M.pure_bind, add_one_ok n h0 (by omega)] at this
      exact this
    have hstep := cond_obs (c := body) hplus (accu_obs ctx (Shape.step v (.int n) x))
    simp only [ite_pure] at hstep
    apply Obs.bind_map_left hstep
    intro r
    cases hr : r.truthy
    · simp only [Bool.false_eq_true, if_false]
      exact ih _ n (Shape.step v _ x) h0 (by omega)
    · simp only [if_true]
      exact ih _ (n + 1) (Shape.step v _ x) (by omega) h1'

theorem exists_one_spec (ctx : Ctx) (v : String) (range body : Expr) (hv : v ≠ accu) :
    ObsEq (eval ctx (expandExistsOne v range body))
      (overRange ctx range (fun xs =>
        if (xs.length : Int) ≤ i64Max then do
          let n ← countFold (bodyAt ctx v body) xs 0
          pure (.bool (n == 1))
        else eval ctx (expandExistsOne v (.lit (.list xs)) body))) := by
  apply Obs.obsEq
  unfold expandExistsOne
  apply comp_obs ctx v range _ _ _ _ (.int 0) _ (lit_obs ctx _)
  intro xs
  split
  · rename_i hlen
    exact one_loop ctx v body hv xs _ 0 (Or.inl rfl) (Int.le_refl 0) (by omega)
  · apply Obs.symm
    refine Obs.trans (comp_obs ctx v (.lit (.list xs)) _ _ _ _ (.int 0)
      (fun ys => loopRes ctx v _ _ _ ys [(accu, .int 0)]) (lit_obs ctx _)
      (fun ys => loopRes_stable _ _ _ _ _ _ _)) ?_
    unfold overRange
    apply Obs.bind_pure_left (lit_obs ctx _)
    simp only [rangeItems]
    exact loopRes_stable _ _ _ _ _ _ _


/-! ### `map`, `filter` -/

theorem append_obs (ctx : Ctx) (v : String) (f : Expr) (acc : List Value) (x : Value) :
    Obs (eval (ctx.push [(accu, .list acc), (v, x)]) (.call "_+_" [accuIdent, .list [f]]))
      (bodyAt ctx v f (.list acc) x >>= fun y => pure (.list (acc ++ [y]))) := by
  have := add_obs (accu_obs ctx (Shape.step v (.list acc) x)) (list1_obs _ f)
  rw [M.bind_assoc] at this
  exact this

theorem append_iter_obs (ctx : Ctx) {v : String} (hv : v ≠ accu) (acc : List Value) (x : Value) :
    Obs (eval (ctx.push [(accu, .list acc), (v, x)]) (.call "_+_" [accuIdent, .list [.ident v]]))
      (pure (.list (acc ++ [x]))) := by
  have h1 : Obs (eval (ctx.push [(accu, .list acc), (v, x)]) (.list [.ident v])) (pure (.list [x])) :=
    Obs.trans (list1_obs _ _) (Obs.bind_pure_left (iter_obs ctx hv _ x) Obs.pure)
  exact add_obs (accu_obs ctx (Shape.step v (.list acc) x)) h1

theorem map_loop (ctx : Ctx) (v : String) (f : Expr) (hv : v ≠ accu) (xs : List Value) :
    ∀ sc acc, Shape v sc (.list acc) →
    Obs (loopRes ctx v (.lit (.bool true)) (.call "_+_" [accuIdent, .list [f]]) accuIdent xs sc)
      (mapFold (bodyAt ctx v f) xs acc >>= fun ys => pure (.list ys)) := by
  induction xs with
  | nil =>
    intro sc acc hs
    rw [loopRes_nil, mapFold, M.pure_bind]
    exact accu_obs ctx hs
  | cons x xs ih =>
    intro sc acc hs
    rw [mapFold, M.bind_assoc]
    apply loopRes_step ctx hv _ _ _ x xs hs (lit_obs _ _) rfl
    apply Obs.bind_map_left (append_obs ctx v f acc x)
    intro y
    exact ih _ _ (Shape.step v _ x)

theorem map_filter_loop (ctx : Ctx) (v : String) (p f : Expr) (hv : v ≠ accu) (xs : List Value) :
    ∀ sc acc, Shape v sc (.list acc) →
    Obs (loopRes ctx v (.lit (.bool true))
        (.call "_?_:_" [p, .call "_+_" [accuIdent, .list [f]], accuIdent]) accuIdent xs sc)
      (mapFilterFold (bodyAt ctx v p) (bodyAt ctx v f) xs acc >>= fun ys => pure (.list ys)) := by
  induction xs with
  | nil =>
    intro sc acc hs
    rw [loopRes_nil, mapFilterFold, M.pure_bind]
    exact accu_obs ctx hs
  | cons x xs ih =>
    intro sc acc hs
    rw [mapFilterFold, M.bind_assoc]
    apply loopRes_step ctx hv _ _ _ x xs hs (lit_obs _ _) rfl
    have hstep := cond_obs (c := p) (append_obs ctx v f acc x)
      (accu_obs ctx (Shape.step v (.list acc) x))
    refine Obs.trans (Obs.bind hstep (fun a => loopRes_stable _ _ _ _ _ _ _)) ?_
    rw [M.bind_assoc]
    unfold bodyAt
    apply Obs.bind (eval_obs _ _)
    intro c
    cases hc : c.truthy
    · simp only [Bool.false_eq_true, if_false]
      rw [M.pure_bind]
      exact ih _ _ (Shape.step v _ x)
    · simp only [if_true]
      rw [M.bind_assoc, M.bind_assoc]
      apply Obs.bind (eval_obs _ _)
      intro y
      rw [M.pure_bind]
      exact ih _ _ (Shape.step v _ x)

theorem filter_loop (ctx : Ctx) (v : String) (p : Expr) (hv : v ≠ accu) (xs : List Value) :
    ∀ sc acc, Shape v sc (.list acc) →
    Obs (loopRes ctx v (.lit (.bool true))
        (.call "_?_:_" [p, .call "_+_" [accuIdent, .list [.ident v]], accuIdent]) accuIdent xs sc)
      (filterFold (bodyAt ctx v p) xs acc >>= fun ys => pure (.list ys)) := by
  induction xs with
  | nil =>
    intro sc acc hs
    rw [loopRes_nil, filterFold, M.pure_bind]
    exact accu_obs ctx hs
  | cons x xs ih =>
    intro sc acc hs
    rw [filterFold, M.bind_assoc]
    apply loopRes_step ctx hv _ _ _ x xs hs (lit_obs _ _) rfl
    have hstep := cond_obs (c := p) (append_iter_obs ctx hv acc x)
      (accu_obs ctx (Shape.step v (.list acc) x))
    simp only [ite_pure] at hstep
    apply Obs.bind_map_left hstep
    intro r
    cases hr : r.truthy
    · simp only [Bool.false_eq_true, if_false]
      exact ih _ _ (Shape.step v _ x)
    · simp only [if_true]
      exact ih _ _ (Shape.step v _ x)

theorem map_spec (ctx : Ctx) (v : String) (range f : Expr) (hv : v ≠ accu) :
    ObsEq (eval ctx (expandMap v range f))
      (overRange ctx range (fun xs => do
        let ys ← mapFold (bodyAt ctx v f) xs []
        pure (.list ys))) := by
  apply Obs.obsEq
  unfold expandMap
  apply comp_obs ctx v range _ _ _ _ (.list []) _ (emptyList_obs ctx)
  intro xs
  exact map_loop ctx v f hv xs _ _ (Or.inl rfl)

theorem map_filter_spec (ctx : Ctx) (v : String) (range p f : Expr) (hv : v ≠ accu) :
    ObsEq (eval ctx (expandMapFilter v range p f))
      (overRange ctx range (fun xs => do
        let ys ← mapFilterFold (bodyAt ctx v p) (bodyAt ctx v f) xs []
        pure (.list ys))) := by
  apply Obs.obsEq
  unfold expandMapFilter
  apply comp_obs ctx v range _ _ _ _ (.list []) _ (emptyList_obs ctx)
  intro xs
  exact map_filter_loop ctx v p f hv xs _ _ (Or.inl rfl)

theorem filter_spec (ctx : Ctx) (v : String) (range p : Expr) (hv : v ≠ accu) :
    ObsEq (eval ctx (expandFilter v range p))
      (overRange ctx range (fun xs => do
        let ys ← filterFold (bodyAt ctx v p) xs []
        pure (.list ys))) := by
  apply Obs.obsEq
  unfold expandFilter
  apply comp_obs ctx v range _ _ _ _ (.list []) _ (emptyList_obs ctx)
  intro xs
  exact filter_loop ctx v p hv xs _ _ (Or.inl rfl)

/-- elements after the deciding one are not visited: the fold over `xs ++ x :: rest` equals
the fold over `xs ++ [x]` once `x` decides (stated for `all`; `exists` is symmetric) -/
theorem allFold_stops (b : Value → EvalM Value) (xs rest : List Value) (x : Value)
    (hx : ∀ s, ∃ r s', b x s = (.ok r, s') ∧ r.truthy = false) :
    allFold b (xs ++ x :: rest) = allFold b (xs ++ [x]) := by
  induction xs with
  | nil =>
    funext s
    obtain ⟨r, s', h, hr⟩ := hx s
    simp only [List.nil_append, allFold]
    rw [M.bind_ok h, M.bind_ok h]
    simp [hr]
  | cons y ys ih =>
    simp only [List.cons_append, allFold]
    rw [ih]

theorem existsFold_stops (b : Value → Value → EvalM Value) (xs rest : List Value) (x acc : Value)
    (hx : ∀ a s, ∃ r s', b a x s = (.ok r, s') ∧ r.truthy = true) :
    existsFold b (xs ++ x :: rest) acc = existsFold b (xs ++ [x]) acc := by
  induction xs generalizing acc with
  | nil =>
    funext s
    obtain ⟨r, s', h, hr⟩ := hx acc s
    simp only [List.nil_append, existsFold]
    rw [M.bind_ok h, M.bind_ok h]
    simp [hr]
  | cons y ys ih =>
    simp only [List.cons_append, existsFold]
    apply M.bind_congr
    intro r
    split
    · rfl
    · exact ih r

/-- an error raised by the body on a reached element aborts the macro with that error -/
theorem allFold_error_aborts (b : Value → EvalM Value) (x : Value) (rest : List Value)
    (s s' : St Value) (e : ErrC) (hx : b x s = (.err e, s')) :
    allFold b (x :: rest) s = (.err e, s') := by
  rw [allFold]
  exact M.bind_err hx

/-- filtering preserves order and keeps exactly the satisfying elements, for a pure predicate -/
theorem filterFold_pure (q : Value → Bool) (xs acc : List Value) (s : St Value) :
    filterFold (fun _ x => pure (.bool (q x))) xs acc s = (.ok (acc ++ xs.filter q), s) := by
  induction xs generalizing acc with
  | nil => simp [filterFold]
  | cons x xs ih =>
    rw [filterFold, M.pure_bind, ih]
    cases h : q x <;> simp [Value.truthy, List.filter, h]

theorem mapFold_pure (g : Value → Value) (xs acc : List Value) (s : St Value) :
    mapFold (fun _ x => pure (g x)) xs acc s = (.ok (acc ++ xs.map g), s) := by
  induction xs generalizing acc with
  | nil => simp [mapFold]
  | cons x xs ih =>
    rw [mapFold, M.pure_bind, ih]
    simp

theorem allFold_pure (q : Value → Bool) (xs : List Value) (s : St Value) :
    allFold (fun x => pure (.bool (q x))) xs s = (.ok (.bool (xs.all q)), s) := by
  induction xs with
  | nil => simp [allFold]
  | cons x xs ih =>
    rw [allFold, M.pure_bind]
    cases h : q x <;> simp [Value.truthy, h, ih]

theorem existsFold_pure (q : Value → Bool) (xs : List Value) (s : St Value) :
    existsFold (fun _ x => pure (.bool (q x))) xs (.bool false) s = (.ok (.bool (xs.any q)), s) := by
  induction xs with
  | nil => simp [existsFold]
  | cons x xs ih =>
    rw [existsFold, M.pure_bind]
    cases h : q x <;> simp [Value.truthy, h, ih]

theorem countFold_pure (q : Value → Bool) (xs : List Value) (n : Int) (s : St Value) :
    countFold (fun _ x => pure (.bool (q x))) xs n s = (.ok (n + (xs.filter q).length), s) := by
  induction xs generalizing n with
  | nil => simp [countFold]
  | cons x xs ih =>
    rw [countFold, M.pure_bind, ih]
    cases h : q x <;> simp [Value.truthy, List.filter, h]
    omega

end Cel.Props.C10
