import CelModel.Props.C03
/-!
# C14 — list, map and string operations agree with one another
-/
namespace Cel.Props.C14
open Cel

/-- indexing a list: element in range, `null` otherwise — for every `Int` index -/
theorem list_index_spec (xs : List Value) (i : Int) :
    indexOp (.list xs) (.int i) =
      .ok (if h : 0 ≤ i ∧ i.toNat < xs.length then xs[i.toNat]'h.2 else .null) :=
  C03.list_index_spec xs i

/-- the four ways of asking a map about a key, as functions of `Map::get` -/
theorem in_map_is_get (m : MapV) (k : Key) :
    inOp k.toValue (.map m) = .ok (.bool (MapV.get m k).isSome) := by
  cases k <;> simp [inOp, Key.toValue, Value.toKey?]

theorem contains_map_is_get (m : MapV) (k : Key) :
    containsFn (.map m) k.toValue = .ok (.bool (MapV.get m k).isSome) := by
  cases k <;> simp [containsFn, Key.toValue, Value.toKey?]

theorem index_map_is_get (m : MapV) (k : Key) :
    indexOp (.map m) k.toValue = .ok ((MapV.get m k).getD .null) := by
  cases k <;> simp [indexOp, Key.toValue]

/-- `k in m`, `m.contains(k)` and `m[k] != null` agree on whether `k` is present, for every map
whose values are non-null and every key -/
theorem presence_agreement (m : MapV) (k : Key)
    (hnn : ∀ v, MapV.get m k = some v → Value.eq v .null = false) :
    ∃ present : Bool,
      inOp k.toValue (.map m) = .ok (.bool present) ∧
      containsFn (.map m) k.toValue = .ok (.bool present) ∧
      (indexOp (.map m) k.toValue).bind (fun v => applyBin .ne v .null) = .ok (.bool present) := by
  refine ⟨(MapV.get m k).isSome, in_map_is_get m k, contains_map_is_get m k, ?_⟩
  rw [index_map_is_get]
  cases h : MapV.get m k with
  | none => simp [Outcome.bind, applyBin, Value.eq]
  | some v => simp [Outcome.bind, applyBin, hnn v h]

/-- numerically equal int and uint keys are the same key as far as presence is concerned -/
theorem numeric_twin_keys_same (m : MapV) (i : Int) (h0 : 0 ≤ i) (h1 : i ≤ i64Max) :
    (MapV.get m (.int i)).isSome = (MapV.get m (.uint i)).isSome := by
  have hu : inU64 i = true := by
    unfold inU64 u64Max; unfold i64Max at h1; simp; omega
  have hi : inI64 i = true := by
    unfold inI64 i64Min i64Max; unfold i64Max at h1; simp; omega
  simp only [MapV.get, hu, hi, if_true]
  cases ha : MapV.find? m (.int i) <;> cases hb : MapV.find? m (.uint i) <;> simp

/-- `f` is not the text of any non-string key of `m` (true of every identifier: the text of
an int or uint key starts with a digit or `-`, that of a bool key is `true`/`false`, which are
keywords) -/
def IdentLikeFor (m : MapV) (f : Str) : Prop :=
  ∀ kv ∈ m, kv.1.toText = f → kv.1 = .str f

theorem find_any (m : MapV) (k : Key) : (MapV.find? m k).isSome = m.any (fun kv => kv.1 == k) := by
  induction m with
  | nil => rfl
  | cons kv rest ih =>
    obtain ⟨k', v⟩ := kv
    by_cases h : k' = k
    · simp [MapV.find?, h]
    · simp [MapV.find?, h, ih]

/-- `has(m.f)` agrees with `'f' in m` for identifier-like field names -/
theorem has_agrees_with_in (m : MapV) (f : Str) (hid : IdentLikeFor m f) :
    hasField (.map m) f = .bool (MapV.find? m (.str f)).isSome := by
  simp only [hasField, find_any]
  congr 1
  induction m with
  | nil => rfl
  | cons kv rest ih =>
    obtain ⟨k, v⟩ := kv
    have ih' := ih (fun kv h => hid kv (List.mem_cons_of_mem _ h))
    simp only [List.any_cons, ih']
    have hhead : (k.toText == f) = (k == Key.str f) := by
      by_cases h : k.toText = f
      · have hk : k = .str f := hid (k, v) (List.mem_cons_self ..) h
        subst hk
        simp [Key.toText]
      · have hne : k ≠ .str f := by
          intro hk; subst hk; exact h rfl
        have a : (k.toText == f) = false := by simp [h]
        have b : (k == Key.str f) = false := by simp [hne]
        rw [a, b]
    rw [hhead]

/-- `m.f` is `m['f']` when the key is present -/
theorem select_is_index_when_present (ctx : Ctx) (m : MapV) (f : Str) (v : Value)
    (h : MapV.find? m (.str f) = some v) :
    member ctx (.map m) f = .ok v ∧ indexOp (.map m) (.str f) = .ok v := by
  constructor
  · simp [member, h]
  · simp [indexOp, MapV.get, h]

/-- a map literal with pairwise distinct keys contains exactly the entries written -/
theorem insert_find (m : MapV) (k k' : Key) (v : Value) :
    MapV.find? (MapV.insert m k v) k' = if k' = k then some v else MapV.find? m k' := by
  induction m with
  | nil =>
    by_cases h : k' = k
    · subst h; simp [MapV.insert, MapV.find?]
    · have : ¬ k = k' := fun e => h e.symm
      simp [MapV.insert, MapV.find?, h, this]
  | cons kv rest ih =>
    obtain ⟨k0, v0⟩ := kv
    by_cases h0 : k0 = k
    · subst h0
      by_cases h : k' = k0
      · subst h; simp [MapV.insert, MapV.find?]
      · have : ¬ k0 = k' := fun e => h e.symm
        simp [MapV.insert, MapV.find?, h, this]
    · by_cases h1 : k0 = k'
      · subst h1
        have : ¬ k0 = k := h0
        simp [MapV.insert, MapV.find?, h0]
      · simp [MapV.insert, MapV.find?, h0, h1, ih]

theorem map_literal_contains_exactly (kvs : List (Key × Value))
    (hd : (kvs.map (·.1)).Nodup) (k : Key) :
    MapV.find? (kvs.foldl (fun m kv => MapV.insert m kv.1 kv.2) []) k =
      (kvs.find? (fun kv => kv.1 == k)).map (·.2) := by
  have gen : ∀ (kvs : List (Key × Value)) (acc : MapV), (kvs.map (·.1)).Nodup →
      (∀ kv ∈ kvs, MapV.find? acc kv.1 = none) →
      MapV.find? (kvs.foldl (fun m kv => MapV.insert m kv.1 kv.2) acc) k =
        match (kvs.find? (fun kv => kv.1 == k)).map (·.2) with
        | some v => some v
        | none => MapV.find? acc k := by
    intro kvs
    induction kvs with
    | nil => intro acc _ _; simp
    | cons kv rest ih =>
      intro acc hnd hfresh
      obtain ⟨k0, v0⟩ := kv
      simp only [List.map_cons, List.nodup_cons] at hnd
      simp only [List.foldl_cons]
      rw [ih (MapV.insert acc k0 v0) hnd.2]
      · by_cases hk : k0 = k
        · subst hk
          have hnone : (rest.find? (fun kv => kv.1 == k0)) = none := by
            rw [List.find?_eq_none]
            intro x hx
            simp only [beq_iff_eq]
            intro hxe
            exact hnd.1 (by rw [← hxe]; exact List.mem_map_of_mem hx)
          simp [hnone, insert_find]
        · have : (k0 == k) = false := by simp [hk]
          simp only [List.find?_cons, this]
          cases hf : (rest.find? (fun kv => kv.1 == k)).map (·.2) with
          | some v => simp
          | none =>
            have hk' : ¬ k = k0 := fun e => hk e.symm
            simp [insert_find, hk']
      · intro kv hkv
        have hne : kv.1 ≠ k0 := by
          intro e
          exact hnd.1 (by rw [← e]; exact List.mem_map_of_mem hkv)
        rw [insert_find]
        simp [hne, hfresh kv (List.mem_cons_of_mem _ hkv)]
  have := gen kvs [] hd (by intro kv _; rfl)
  rw [this]
  cases (kvs.find? (fun kv => kv.1 == k)).map (·.2) <;> rfl

/-- `size` is additive over `+` for lists and strings -/
theorem utf8_size_append (a b : Str) : strSize (a ++ b) = strSize a + strSize b := by
  induction a with
  | nil => simp [strSize]
  | cons c cs ih => simp [strSize, ih]; omega

theorem size_add (a b : Value) (s : Value) (h : arith .add a b = .ok s)
    (hk : (∃ x y, a = .list x ∧ b = .list y) ∨ (∃ x y, a = .str x ∧ b = .str y)) :
    ∃ na nb : Int, sizeFn a = .ok (.int na) ∧ sizeFn b = .ok (.int nb) ∧ sizeFn s = .ok (.int (na + nb)) := by
  rcases hk with ⟨x, y, rfl, rfl⟩ | ⟨x, y, rfl, rfl⟩
  · simp only [arith] at h
    cases h
    exact ⟨x.length, y.length, rfl, rfl, by simp [sizeFn]⟩
  · simp only [arith] at h
    cases h
    exact ⟨strSize x, strSize y, rfl, rfl, by simp [sizeFn, utf8_size_append]⟩

/-- concatenation preserves element order: the result is the left operand followed by the
right one (the operands themselves are values and stay what they were) -/
theorem concat_preserves_order (x y : List Value) (i : Nat) :
    arith .add (.list x) (.list y) = .ok (.list (x ++ y)) ∧
    (x ++ y)[i]? = if i < x.length then x[i]? else y[i - x.length]? := by
  constructor
  · rfl
  · by_cases h : i < x.length
    · simp [h, List.getElem?_append_left h]
    · simp [h, List.getElem?_append_right (by omega : x.length ≤ i)]

/-- `x in l` holds iff some element of `l` equals `x` -/
theorem in_list_iff_exists_eq (x : Value) (l : List Value) :
    inOp x (.list l) = .ok (.bool (l.any (fun y => Value.eq y x))) := by
  cases x <;> rfl

/-- and `l.contains(x)` is the same test -/
theorem contains_list_is_in (x : Value) (l : List Value) :
    containsFn (.list l) x = inOp x (.list l) := by
  cases x <;> rfl

/-! ### non-vacuity -/
example : IdentLikeFor [(.str "ab".toList, .int 1), (.int 5, .int 2), (.bool true, .int 3)] "ab".toList := by
  intro kv h
  simp only [List.mem_cons, List.mem_nil_iff, or_false] at h
  rcases h with rfl | rfl | rfl
  · intro _; rfl
  · intro h; exact absurd h (by decide)
  · intro h; exact absurd h (by decide)

example : (kvs : List (Key × Value)) → kvs = [(.int 1, .int 10), (.uint 1, .int 20)] →
    (kvs.map (·.1)).Nodup := by
  intro kvs h; subst h; decide

end Cel.Props.C14
