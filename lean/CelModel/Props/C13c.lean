import CelModel.Props.C13
import CelModel.Lemmas.F64Round
import CelModel.Lemmas.F64Digits
import CelModel.Lemmas.F64Text
/-!
# C13 (continued) — `string(double)` followed by `double(string)` returns the original double

`F64.fmt` is the model of Rust's shortest round-trip `Display for f64`, `F64.parse` of the
correctly rounded `FromStr for f64`.  The printed digits lie in the rounding interval of the
double (`shortestDigits_spec`), and a fraction in that interval rounds back to the double
(`roundRatPos_of_interval`); the rest is the placement of the decimal point.
-/
namespace Cel.Props.C13
open Cel

/-- printing then parsing a finite double gives the same bit pattern (signed zeros included) -/
theorem parse_fmt_finite (b : UInt64) (h : F64.isFinite b = true) : F64.parse (F64.fmt b) = some b := by
  unfold F64.isFinite at h
  split at h
  case h_2 => cases h
  rename_i neg m e hd
  have hd' : F64.decodeNat b.toNat = .fin neg m e := hd
  obtain ⟨hpos, hb⟩ := F64.decodeNat_sign b.toNat (UInt64.toNat_lt b) neg m e hd'
  have hlt : b.toNat % 2 ^ 63 < 2 ^ 63 := Nat.mod_lt _ (by decide)
  have hback : ∀ bits : Nat, bits = b.toNat % 2 ^ 63 →
      UInt64.ofNat (bits + (if neg then 2 ^ 63 else 0)) = b := by
    intro bits hbits
    rw [hbits, ← hb, UInt64.ofNat_toNat]
  by_cases hm : m = 0
  · subst hm
    have h0 := F64.decodeNat_zero _ hlt e hpos
    rw [F64.fmt_zero b neg e hd, F64.parse_int neg ['0'] (by simp)
      (by intro c hc; rw [List.mem_singleton.1 hc]; decide)]
    have hz : F64.parseFin neg ['0'] [] 0 = UInt64.ofNat (0 + (if neg then 2 ^ 63 else 0)) := by
      cases neg <;> decide
    rw [hz, hback 0 h0.symm]
  · obtain ⟨hv, henc⟩ := F64.decodeNat_validFin _ hlt m e hpos (Nat.pos_of_ne_zero hm)
    obtain ⟨hne, hdig, hk, hin⟩ := F64.shortestDigits_spec m e hv
    have hden := F64.fracOfDigits_den_pos (F64.shortestDigits m e).2 (F64.shortestDigits m e).1
    have hnum := F64.InInterval_num_pos m e _ _ hv.1 hden hin
    rw [F64.fmt_fin b neg m e hd hm, F64.parse_layout neg _ _ hne hdig hk hnum,
      F64.ofRat_of_round neg _ _ _ (F64.roundRatPos_of_interval m e hv _ _ hden hin),
      hback _ henc]

/-- infinities print as `inf` / `-inf` and parse back; every NaN prints as `NaN` and parses to the
canonical NaN -/
theorem parse_fmt_special (b : UInt64) (h : F64.isFinite b = false) :
    F64.parse (F64.fmt b) = some (F64.canon b) := by
  unfold F64.isFinite at h
  unfold F64.fmt F64.canon F64.isNaN
  split at h
  · cases h
  · rename_i hnf
    cases hd : F64.decode b with
    | nan => exact (by decide : F64.parse "NaN".toList = some F64.nanBits)
    | fin neg m e => exact absurd hd (hnf neg m e)
    | inf neg =>
      have hd' : F64.decodeNat b.toNat = .inf neg := hd
      have hb := F64.decodeNat_inf b.toNat (UInt64.toNat_lt b) neg hd'
      have hb' : b = if neg then F64.negInfBits else F64.posInfBits := by
        rw [← UInt64.ofNat_toNat (x := b), hb]
        cases neg <;> rfl
      rw [hb']
      cases neg <;> decide

/-- ROUND TRIP for doubles: `double(string(f)) == f` bit for bit (NaN canonicalised) -/
theorem string_double_roundtrip (f : UInt64) :
    (stringFn (.dbl f)).bind doubleFn = .ok (.dbl (F64.canon f)) := by
  have hp : F64.parse (F64.fmt f) = some (F64.canon f) := by
    cases hf : F64.isFinite f with
    | false => exact parse_fmt_special f hf
    | true =>
      rw [parse_fmt_finite f hf]
      have : F64.isNaN f = false := by
        unfold F64.isFinite at hf
        unfold F64.isNaN
        split at hf
        · rename_i hd; rw [hd]
        · cases hf
      unfold F64.canon
      rw [this]
      rfl
  simp only [stringFn, Outcome.bind, doubleFn, hp]

example : F64.parse (F64.fmt 0x3fb999999999999a) = some 0x3fb999999999999a := by decide +kernel  -- 0.1
example : F64.fmt 0x3fb999999999999a = "0.1".toList := by decide +kernel

end Cel.Props.C13
