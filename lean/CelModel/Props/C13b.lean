import CelModel.Props.C13
import CelModel.Lemmas.OfIntNearest
/-!
# C13 (continued) — `double(int)` beyond 2^53 is the nearest double, ties to even

`F64.ofInt` models Rust's `i as f64` for `i64`/`u64`.  `double_of_int_exact_small` (C13) covers
`|i| ≤ 2^53`, where the conversion is exact.  Here: for every integer of either 64-bit range the
result is a finite double that is at least as close to `i` as every other finite double, and when
another double is exactly as close the result is the one with the even significand.
Distances are measured on the exact keys (`F64.keyD`, integers scaled by 2^1074).
-/
namespace Cel.Props.C13
open Cel Cel.Lemmas.OfInt Cel.Lemmas.OfIntNearest

/-- the exact (scaled) key of a double, when finite -/
def finKey (b : UInt64) : Option Int :=
  match F64.keyD (F64.decode b) with
  | some (.fin k) => some k
  | _ => none

/-- the significand of a finite double -/
def significand (b : UInt64) : Nat :=
  match F64.decode b with
  | .fin _ m _ => m
  | _ => 0

/-! helper facts about `finKey` / `significand` (arithmetic is in `Lemmas/OfIntNearest.lean`) -/

theorem finKey_of_decode (b : UInt64) (neg : Bool) (m : Nat) (e : Int)
    (h : F64.decode b = .fin neg m e) :
    finKey b = some (F64.sgn neg ((m : Int) * 2 ^ (e + 1074).toNat)) := by
  unfold finKey; rw [h]; rfl

theorem finKey_some (b : UInt64) (k : Int) (h : finKey b = some k) :
    ∃ neg m e, F64.decode b = .fin neg m e ∧ m < 2 ^ 53 ∧
      k = F64.sgn neg ((m : Int) * 2 ^ (e + 1074).toNat) := by
  cases hd : F64.decode b with
  | nan => unfold finKey at h; rw [hd] at h; cases h
  | inf neg => unfold finKey at h; rw [hd] at h; cases neg <;> cases h
  | fin neg m e =>
    rw [finKey_of_decode b neg m e hd] at h
    injection h with h
    exact ⟨neg, m, e, rfl, decodeNat_mant_lt _ _ _ _ hd, h.symm⟩

theorem finKey_small (i : Int) (h : i.natAbs ≤ 2 ^ 53) :
    finKey (F64.ofInt i) = some (i * F64.twoScale) := by
  unfold finKey; rw [double_of_int_exact_small i h]; rfl

/-- either the conversion is exact, or `|i|` is in a binade `[2^(52+l), 2^(53+l))`, `1 ≤ l ≤ 11` -/
theorem small_or_big (i : Int) (h : i.natAbs < 2 ^ 64) :
    i.natAbs ≤ 2 ^ 53 ∨ ∃ l, 1 ≤ l ∧ l ≤ 11 ∧ Nat.log2 i.natAbs = 52 + l := by
  by_cases hs : i.natAbs ≤ 2 ^ 53
  · exact Or.inl hs
  · exact Or.inr (big_l _ (by omega) h)

/-- `double(i)` is finite for every i64 / u64 -/
theorem double_of_int_finite (i : Int) (h : i.natAbs < 2 ^ 64) :
    ∃ k, finKey (F64.ofInt i) = some k := by
  rcases small_or_big i h with hs | ⟨l, hl1, hl2, hL⟩
  · exact ⟨_, finKey_small i hs⟩
  · obtain ⟨M, e, hdec, _, _⟩ := ofInt_big i l hl1 hl2 hL
    exact ⟨_, finKey_of_decode _ _ _ _ hdec⟩

/-- nearest: no finite double is strictly closer to `i` -/
theorem double_of_int_nearest (i : Int) (h : i.natAbs < 2 ^ 64) (k : Int)
    (hk : finKey (F64.ofInt i) = some k) (b' : UInt64) (k' : Int) (hk' : finKey b' = some k') :
    (k - i * F64.twoScale).natAbs ≤ (k' - i * F64.twoScale).natAbs := by
  rcases small_or_big i h with hs | ⟨l, hl1, hl2, hL⟩
  · rw [finKey_small i hs] at hk
    injection hk with hk
    subst hk
    omega
  · obtain ⟨M, e, hdec, _, hall⟩ := ofInt_big i l hl1 hl2 hL
    rw [finKey_of_decode _ _ _ _ hdec] at hk
    injection hk with hk
    obtain ⟨neg', m', e', _, hm', hk'e⟩ := finKey_some b' k' hk'
    rw [← hk, hk'e]
    exact (hall neg' m' e' hm').1

/-- ties to even: if a different double is exactly as close, the result has an even significand -/
theorem double_of_int_ties_to_even (i : Int) (h : i.natAbs < 2 ^ 64) (k : Int)
    (hk : finKey (F64.ofInt i) = some k) (b' : UInt64) (k' : Int) (hk' : finKey b' = some k')
    (hne : k' ≠ k) (htie : (k - i * F64.twoScale).natAbs = (k' - i * F64.twoScale).natAbs) :
    significand (F64.ofInt i) % 2 = 0 := by
  rcases small_or_big i h with hs | ⟨l, hl1, hl2, hL⟩
  · rw [finKey_small i hs] at hk
    injection hk with hk
    subst hk
    exfalso; apply hne; omega
  · obtain ⟨M, e, hdec, _, hall⟩ := ofInt_big i l hl1 hl2 hL
    rw [finKey_of_decode _ _ _ _ hdec] at hk
    injection hk with hk
    obtain ⟨neg', m', e', _, hm', hk'e⟩ := finKey_some b' k' hk'
    have hsig : significand (F64.ofInt i) = M := by unfold significand; rw [hdec]
    rw [hsig]
    rw [← hk, hk'e] at htie hne
    exact (hall neg' m' e' hm').2 htie hne

/-- the sign is kept and the conversion is monotone in magnitude bounds: |i| < 2^64 never
reaches infinity (a corollary of finiteness, stated on the decoded form) -/
theorem double_of_int_sign (i : Int) (h : i.natAbs < 2 ^ 64) (hz : i ≠ 0) :
    ∃ m e, F64.decode (F64.ofInt i) = .fin (decide (i < 0)) m e ∧ 0 < m := by
  rcases small_or_big i h with hs | ⟨l, hl1, hl2, hL⟩
  · exact ofInt_small_decode i hz hs
  · obtain ⟨M, e, hdec, hM, _⟩ := ofInt_big i l hl1 hl2 hL
    exact ⟨M, e, hdec, hM⟩

/-! non-vacuity: 2^53 + 1 is a tie between 2^53 and 2^53 + 2 and goes to the even significand;
2^63 - 1 (i64::MAX) rounds up to 2^63; u64::MAX rounds up to 2^64 -/
example : F64.ofInt (2 ^ 53 + 1) = 0x4340000000000000 := by decide +kernel
example : F64.ofInt (2 ^ 53 + 3) = 0x4340000000000002 := by decide +kernel
example : F64.ofInt (2 ^ 63 - 1) = 0x43e0000000000000 := by decide +kernel
example : F64.ofInt (2 ^ 64 - 1) = 0x43f0000000000000 := by decide +kernel
example : F64.ofInt (-(2 ^ 63)) = 0xc3e0000000000000 := by decide +kernel

end Cel.Props.C13
