import CelModel.Eval
/-!
# C08 — 64-bit integer arithmetic is exact or reports overflow

Statements are about `intArith` / `uintArith` / `intNeg` (the `(Int, Int)` and `(UInt, UInt)`
arms of `impl Add/Sub/Mul/Div/Rem for Value` and the unary minus arm of `resolve`) and about
`arith` on whole values, for **all** operands.
-/
namespace Cel.Props.C08
open Cel

/-- the mathematical operation each operator denotes (truncating division, remainder with the
sign of the dividend) -/
def exact : ArithOp → Int → Int → Int
  | .add, a, b => a + b
  | .sub, a, b => a - b
  | .mul, a, b => a * b
  | .div, a, b => Int.tdiv a b
  | .rem, a, b => Int.tmod a b

theorem chk_some {inR : Int → Bool} {r : Int} (h : inR r = true) : chk inR r = some r := by
  simp [chk, h]
theorem chk_none {inR : Int → Bool} {r : Int} (h : inR r = false) : chk inR r = none := by
  simp [chk, h]

/-- `+ - *` on ints: the exact result when representable, otherwise the overflow error. -/
theorem int_addsubmul_exact_or_overflow (op : ArithOp) (hop : op = .add ∨ op = .sub ∨ op = .mul)
    (a b : Int) :
    (inI64 (exact op a b) = true ∧ intArith op a b = .ok (exact op a b)) ∨
    (inI64 (exact op a b) = false ∧ intArith op a b = .err .overflow) := by
  rcases hop with h | h | h <;> subst h <;> simp only [exact, intArith] <;>
    (cases hr : inI64 _ <;> simp [chk, hr])

/-- `+ - *` on uints. -/
theorem uint_addsubmul_exact_or_overflow (op : ArithOp) (hop : op = .add ∨ op = .sub ∨ op = .mul)
    (a b : Int) :
    (inU64 (exact op a b) = true ∧ uintArith op a b = .ok (exact op a b)) ∨
    (inU64 (exact op a b) = false ∧ uintArith op a b = .err .overflow) := by
  rcases hop with h | h | h <;> subst h <;> simp only [exact, uintArith] <;>
    (cases hr : inU64 _ <;> simp [chk, hr])

theorem inI64_iff (i : Int) : inI64 i = true ↔ (-9223372036854775808 ≤ i ∧ i ≤ 9223372036854775807) := by
  unfold inI64 i64Min i64Max; simp
theorem inU64_iff (i : Int) : inU64 i = true ↔ (0 ≤ i ∧ i ≤ 18446744073709551615) := by
  unfold inU64 u64Max; simp

/-- truncating division of in-range ints leaves the range only for `MIN / -1` -/
theorem tdiv_inI64 (a b : Int) (ha : inI64 a = true) (hb0 : b ≠ 0)
    (hmin : ¬ (a = i64Min ∧ b = -1)) : inI64 (Int.tdiv a b) = true := by
  rw [inI64_iff] at *
  simp only [i64Min] at hmin
  rcases Int.lt_or_lt_of_ne hb0 with hb | hb
  · -- b < 0
    by_cases hb1 : b = -1
    · subst hb1
      have : Int.tdiv a (-1) = -a := by
        rw [Int.tdiv_neg, Int.tdiv_one]
      rw [this]
      omega
    · have hb2 : b ≤ -2 := by omega
      -- |a / b| ≤ |a| / 2
      have h1 : Int.tdiv a b = -(Int.tdiv a (-b)) := by rw [Int.tdiv_neg, Int.neg_neg]
      rcases Int.le_total 0 a with ha0 | ha0
      · have : Int.tdiv a (-b) = a / (-b) := Int.tdiv_eq_ediv_of_nonneg ha0
        have hq0 : 0 ≤ a / (-b) := Int.ediv_nonneg ha0 (by omega)
        have hq1 : a / (-b) ≤ a := Int.ediv_le_self _ ha0
        omega
      · have hna : 0 ≤ -a := by omega
        have h2 : Int.tdiv a (-b) = -(Int.tdiv (-a) (-b)) := by rw [Int.neg_tdiv, Int.neg_neg]
        have : Int.tdiv (-a) (-b) = (-a) / (-b) := Int.tdiv_eq_ediv_of_nonneg hna
        have hq0 : 0 ≤ (-a) / (-b) := Int.ediv_nonneg hna (by omega)
        by_cases hz : a = 0
        · subst hz; simp at *
        · have hx : 0 < -a := by omega
          have hc : 0 < -b := by omega
          have hmul : -a < -a * -b := by
            have : -a * 2 ≤ -a * -b := Int.mul_le_mul_of_nonneg_left (by omega) (by omega)
            omega
          have hq1 : (-a) / (-b) < -a := Int.ediv_lt_of_lt_mul hc hmul
          omega
  · -- b > 0
    rcases Int.le_total 0 a with ha0 | ha0
    · have : Int.tdiv a b = a / b := Int.tdiv_eq_ediv_of_nonneg ha0
      have hq0 : 0 ≤ a / b := Int.ediv_nonneg ha0 (by omega)
      have hq1 : a / b ≤ a := Int.ediv_le_self _ ha0
      omega
    · have hna : 0 ≤ -a := by omega
      have h2 : Int.tdiv a b = -(Int.tdiv (-a) b) := by rw [Int.neg_tdiv, Int.neg_neg]
      have : Int.tdiv (-a) b = (-a) / b := Int.tdiv_eq_ediv_of_nonneg hna
      have hq0 : 0 ≤ (-a) / b := Int.ediv_nonneg hna (by omega)
      have hq1 : (-a) / b ≤ -a := Int.ediv_le_self _ hna
      omega

/-- `/` on ints: zero divisor → division-by-zero error; `MIN / -1` → overflow; otherwise the
quotient truncated toward zero, which is always representable. -/
theorem int_div_spec (a b : Int) (ha : inI64 a = true) :
    (b = 0 → intArith .div a b = .err .div0) ∧
    (a = i64Min ∧ b = -1 → intArith .div a b = .err .overflow) ∧
    (b ≠ 0 → ¬ (a = i64Min ∧ b = -1) →
      intArith .div a b = .ok (Int.tdiv a b) ∧ inI64 (Int.tdiv a b) = true) := by
  refine ⟨?_, ?_, ?_⟩
  · intro h; simp [intArith, h]
  · rintro ⟨h1, h2⟩; subst h1 h2
    simp [intArith, chk, inI64, i64Min, i64Max]
  · intro hb hmin
    have hr := tdiv_inI64 a b ha hb hmin
    simp [intArith, hb, chk, hr]

/-- `%` on ints: zero divisor → remainder-by-zero error; `MIN % -1` → overflow (as in cel-go);
otherwise the remainder of truncating division. -/
theorem int_rem_spec (a b : Int) :
    (b = 0 → intArith .rem a b = .err .rem0) ∧
    (a = i64Min ∧ b = -1 → intArith .rem a b = .err .overflow) ∧
    (b ≠ 0 → ¬ (a = i64Min ∧ b = -1) → intArith .rem a b = .ok (Int.tmod a b)) := by
  refine ⟨?_, ?_, ?_⟩
  · intro h; simp [intArith, h]
  · rintro ⟨h1, h2⟩; subst h1 h2; simp [intArith, i64Min]
  · intro hb hmin; simp [intArith, hb, hmin]

theorem tmod_natAbs_le (a b : Int) : (Int.tmod a b).natAbs ≤ a.natAbs := by
  rw [Int.natAbs_tmod]; exact Nat.mod_le _ _

theorem tmod_nonpos (a b : Int) (h : a ≤ 0) : Int.tmod a b ≤ 0 := by
  have hna : 0 ≤ -a := by omega
  have h0 : Int.tmod a b = -(Int.tmod (-a) b) := by rw [Int.neg_tmod, Int.neg_neg]
  have := Int.tmod_nonneg b hna
  omega

/-- the remainder is representable whenever the dividend is -/
theorem tmod_inI64 (a b : Int) (ha : inI64 a = true) : inI64 (Int.tmod a b) = true := by
  rw [inI64_iff] at *
  have hle := tmod_natAbs_le a b
  rcases Int.le_total 0 a with h | h
  · have h1 := Int.tmod_nonneg b h
    omega
  · have h1 := tmod_nonpos a b h
    omega

/-- uint `/` and `%`: only a zero divisor is an error -/
theorem uint_div_rem_spec (a b : Int) :
    (b = 0 → uintArith .div a b = .err .div0 ∧ uintArith .rem a b = .err .rem0) ∧
    (b ≠ 0 → uintArith .div a b = .ok (Int.tdiv a b) ∧ uintArith .rem a b = .ok (Int.tmod a b)) := by
  constructor
  · intro h; simp [uintArith, h]
  · intro h; simp [uintArith, h]

/-- `(a/b)*b + a%b == a` whenever both are defined (ints) -/
theorem int_div_mul_add_rem (a b q r : Int) (hq : intArith .div a b = .ok q)
    (hr : intArith .rem a b = .ok r) : q * b + r = a := by
  have hb : b ≠ 0 := by
    intro h; subst h; simp [intArith] at hq
  have hq' : q = Int.tdiv a b := by
    simp only [intArith, hb, if_false] at hq
    unfold chk at hq
    split at hq <;> simp_all
  have hr' : r = Int.tmod a b := by
    simp only [intArith, hb, if_false] at hr
    split at hr <;> simp_all
  subst hq' hr'
  have := Int.tmod_add_mul_tdiv a b
  rw [Int.mul_comm] at this
  omega

/-- the same identity for uints -/
theorem uint_div_mul_add_rem (a b q r : Int) (hq : uintArith .div a b = .ok q)
    (hr : uintArith .rem a b = .ok r) : q * b + r = a := by
  have hb : b ≠ 0 := by
    intro h; subst h; simp [uintArith] at hq
  simp only [uintArith, hb, if_false] at hq hr
  cases hq; cases hr
  have := Int.tmod_add_mul_tdiv a b
  rw [Int.mul_comm] at this
  omega

/-- the remainder takes the sign of the dividend -/
theorem int_rem_sign_of_dividend (a b r : Int) (hr : intArith .rem a b = .ok r) :
    (0 ≤ a → 0 ≤ r) ∧ (a ≤ 0 → r ≤ 0) := by
  have hb : b ≠ 0 := by
    intro h; subst h; simp [intArith] at hr
  have hr' : r = Int.tmod a b := by
    simp only [intArith, hb, if_false] at hr
    split at hr <;> simp_all
  subst hr'
  constructor
  · intro h; exact Int.tmod_nonneg b h
  · intro h; exact tmod_nonpos a b h

/-- division truncates toward zero: the quotient's magnitude is the floor of |a|/|b| and its
sign is the product of the signs -/
theorem int_div_truncates (a b q : Int) (hq : intArith .div a b = .ok q) :
    q.natAbs = a.natAbs / b.natAbs := by
  have hb : b ≠ 0 := by
    intro h; subst h; simp [intArith] at hq
  have hq' : q = Int.tdiv a b := by
    simp only [intArith, hb, if_false] at hq
    unfold chk at hq
    split at hq <;> simp_all
  subst hq'
  exact Int.natAbs_tdiv a b

/-- unary minus: exact, or overflow exactly for the most negative int -/
theorem int_neg_exact_or_overflow (a : Int) (ha : inI64 a = true) :
    (a ≠ i64Min ∧ intNeg a = .ok (-a) ∧ inI64 (-a) = true) ∨
    (a = i64Min ∧ intNeg a = .err .overflow) := by
  by_cases h : a = i64Min
  · right; subst h; simp [intNeg, chk, inI64, i64Min, i64Max]
  · left
    have hr : inI64 (-a) = true := by
      rw [inI64_iff] at *; unfold i64Min at h; omega
    simp [intNeg, chk, hr, h]

def isNum : Value → Bool
  | .int _ => true | .uint _ => true | .dbl _ => true | _ => false

def sameKind : Value → Value → Bool
  | .int _, .int _ => true | .uint _, .uint _ => true | .dbl _, .dbl _ => true | _, _ => false

/-- mixing int, uint and double operands in arithmetic is an error, never a coercion -/
theorem mixed_numeric_arith_is_error (op : ArithOp) (a b : Value)
    (ha : isNum a = true) (hb : isNum b = true) (hk : sameKind a b = false) :
    arith op a b = .err .unsupportedOp := by
  cases a <;> cases b <;> simp_all [isNum, sameKind, arith]

theorem map_isPanic (f : α → β) (o : Outcome α) : (o.map f).isPanic = o.isPanic := by
  cases o <;> rfl

theorem intArith_no_panic (op : ArithOp) (a b : Int) : (intArith op a b).isPanic = false := by
  cases op <;> simp only [intArith, chk] <;> (repeat' split) <;> rfl

theorem uintArith_no_panic (op : ArithOp) (a b : Int) : (uintArith op a b).isPanic = false := by
  cases op <;> simp only [uintArith, chk] <;> (repeat' split) <;> rfl

/-- the value operators never panic, whatever the operands -/
theorem arith_no_panic (op : ArithOp) (a b : Value) : (arith op a b).isPanic = false := by
  cases a <;> cases b <;>
    first
    | (simp only [arith, map_isPanic, intArith_no_panic, uintArith_no_panic]; done)
    | (simp only [arith]; rfl)
    | (cases op <;> simp only [arith] <;> (repeat' split) <;> rfl)

/-- whole-value statement of the first clause: int operands under `+ - *` -/
theorem arith_int_exact_or_overflow (op : ArithOp) (hop : op = .add ∨ op = .sub ∨ op = .mul)
    (a b : Int) :
    (inI64 (exact op a b) = true ∧ arith op (.int a) (.int b) = .ok (.int (exact op a b))) ∨
    (inI64 (exact op a b) = false ∧ arith op (.int a) (.int b) = .err .overflow) := by
  rcases int_addsubmul_exact_or_overflow op hop a b with ⟨h1, h2⟩ | ⟨h1, h2⟩
  · left; exact ⟨h1, by simp [arith, h2, Outcome.map]⟩
  · right; exact ⟨h1, by simp [arith, h2, Outcome.map]⟩

theorem arith_uint_exact_or_overflow (op : ArithOp) (hop : op = .add ∨ op = .sub ∨ op = .mul)
    (a b : Int) :
    (inU64 (exact op a b) = true ∧ arith op (.uint a) (.uint b) = .ok (.uint (exact op a b))) ∨
    (inU64 (exact op a b) = false ∧ arith op (.uint a) (.uint b) = .err .overflow) := by
  rcases uint_addsubmul_exact_or_overflow op hop a b with ⟨h1, h2⟩ | ⟨h1, h2⟩
  · left; exact ⟨h1, by simp [arith, h2, Outcome.map]⟩
  · right; exact ⟨h1, by simp [arith, h2, Outcome.map]⟩

/-! ### non-vacuity: the hypotheses are met by concrete boundary operands -/
example : inI64 i64Max = true ∧ intArith .add i64Max 1 = .err .overflow := by decide
example : intArith .div i64Min (-1) = .err .overflow ∧ intArith .rem i64Min (-1) = .err .overflow := by
  decide
example : intArith .div (-7) 2 = .ok (-3) ∧ intArith .rem (-7) 2 = .ok (-1) := by decide
example : uintArith .sub 0 1 = .err .overflow ∧ uintArith .mul 4294967296 4294967296 = .err .overflow := by
  decide
example : intNeg i64Min = .err .overflow ∧ intNeg i64Max = .ok (-i64Max) := by decide

end Cel.Props.C08
