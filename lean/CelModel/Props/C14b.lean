import CelModel.Props.C14
/-!
# C14 (second part) — the string tests agree with concatenation and with one another

`startsWith`, `endsWith`, `contains` and the string form of `in` are characterised, for every pair
of strings, by concatenation: `t.startsWith(p)` iff `t = p + r` for some `r`, `t.endsWith(s)` iff
`t = r + s`, `t.contains(n)` iff `t = a + n + b`. The agreements of the property follow: a prefix
or suffix is contained, `n in t` and `t.contains(n)` are one question, each operand of a
concatenation is found in the result at its own end, and a contained string is never longer
(in the UTF-8 bytes `size` counts) than its container.
-/
namespace Cel.Props.C14
open Cel

section lists
variable {α : Type} [BEq α] [LawfulBEq α]

theorem isPrefixOf_iff (p t : List α) : isPrefixOf p t = true ↔ ∃ r, t = p ++ r := by
  induction p generalizing t with
  | nil => simp [isPrefixOf]
  | cons a as ih =>
    cases t with
    | nil => simp [isPrefixOf]
    | cons b bs =>
      simp only [isPrefixOf, Bool.and_eq_true, beq_iff_eq, ih, List.cons_append, List.cons.injEq]
      constructor
      · rintro ⟨rfl, r, rfl⟩; exact ⟨r, rfl, rfl⟩
      · rintro ⟨r, rfl, rfl⟩; exact ⟨rfl, r, rfl⟩

theorem isSuffixOf_iff (s t : List α) : isSuffixOf s t = true ↔ ∃ r, t = r ++ s := by
  unfold isSuffixOf
  rw [isPrefixOf_iff]
  constructor
  · rintro ⟨r, h⟩
    refine ⟨r.reverse, ?_⟩
    have := congrArg List.reverse h
    simpa using this
  · rintro ⟨r, rfl⟩
    exact ⟨r.reverse, by simp⟩

theorem isInfixOf_iff (n t : List α) : isInfixOf n t = true ↔ ∃ a b, t = a ++ n ++ b := by
  induction t with
  | nil =>
    simp only [isInfixOf, List.isEmpty_iff]
    constructor
    · rintro rfl; exact ⟨[], [], rfl⟩
    · rintro ⟨a, b, h⟩
      have := congrArg List.length h
      simp at this
      exact List.eq_nil_of_length_eq_zero (by omega)
  | cons c cs ih =>
    simp only [isInfixOf, Bool.or_eq_true, isPrefixOf_iff, ih]
    constructor
    · rintro (⟨r, h⟩ | ⟨a, b, h⟩)
      · exact ⟨[], r, by simpa using h⟩
      · exact ⟨c :: a, b, by simp [h]⟩
    · rintro ⟨a, b, h⟩
      cases a with
      | nil => exact .inl ⟨b, by simpa using h⟩
      | cons x a =>
        simp only [List.cons_append, List.cons.injEq] at h
        exact .inr ⟨a, b, h.2⟩

end lists

/-- `t.startsWith(p)` is true exactly when `t` is `p` followed by something -/
theorem startsWith_iff_concat (ctx : Ctx) (t p : Str) :
    applyBuiltin ctx .startsWith [.str t, .str p] = .ok (.bool true) ↔ ∃ r, t = p ++ r := by
  simp [applyBuiltin, isPrefixOf_iff]

/-- `t.endsWith(s)` is true exactly when `t` is something followed by `s` -/
theorem endsWith_iff_concat (ctx : Ctx) (t s : Str) :
    applyBuiltin ctx .endsWith [.str t, .str s] = .ok (.bool true) ↔ ∃ r, t = r ++ s := by
  simp [applyBuiltin, isSuffixOf_iff]

/-- `t.contains(n)` is true exactly when `n` occurs contiguously in `t` -/
theorem contains_str_iff_concat (ctx : Ctx) (t n : Str) :
    applyBuiltin ctx .contains [.str t, .str n] = .ok (.bool true) ↔ ∃ a b, t = a ++ n ++ b := by
  simp [applyBuiltin, containsFn, isInfixOf_iff]

/-- the three string tests never fail and never panic on strings: always a boolean -/
theorem string_tests_total (ctx : Ctx) (t x : Str) :
    (∃ b, applyBuiltin ctx .startsWith [.str t, .str x] = .ok (.bool b)) ∧
    (∃ b, applyBuiltin ctx .endsWith [.str t, .str x] = .ok (.bool b)) ∧
    (∃ b, applyBuiltin ctx .contains [.str t, .str x] = .ok (.bool b)) ∧
    (∃ b, inOp (.str x) (.str t) = .ok (.bool b)) := by
  simp [applyBuiltin, containsFn, inOp]

/-- `n in t` and `t.contains(n)` are the same question for strings -/
theorem in_str_is_contains (ctx : Ctx) (t n : Str) :
    inOp (.str n) (.str t) = applyBuiltin ctx .contains [.str t, .str n] := by
  simp [applyBuiltin, containsFn, inOp]

/-- a prefix is contained -/
theorem startsWith_implies_contains (ctx : Ctx) (t p : Str)
    (h : applyBuiltin ctx .startsWith [.str t, .str p] = .ok (.bool true)) :
    applyBuiltin ctx .contains [.str t, .str p] = .ok (.bool true) := by
  rw [startsWith_iff_concat] at h
  rw [contains_str_iff_concat]
  obtain ⟨r, rfl⟩ := h
  exact ⟨[], r, rfl⟩

/-- a suffix is contained -/
theorem endsWith_implies_contains (ctx : Ctx) (t s : Str)
    (h : applyBuiltin ctx .endsWith [.str t, .str s] = .ok (.bool true)) :
    applyBuiltin ctx .contains [.str t, .str s] = .ok (.bool true) := by
  rw [endsWith_iff_concat] at h
  rw [contains_str_iff_concat]
  obtain ⟨r, rfl⟩ := h
  exact ⟨r, [], by simp⟩

/-- the result of `a + b` starts with `a`, ends with `b`, and contains both: concatenation keeps
each operand, whole and in its place -/
theorem concat_str_keeps_operands (ctx : Ctx) (a b : Str) :
    arith .add (.str a) (.str b) = .ok (.str (a ++ b)) ∧
    applyBuiltin ctx .startsWith [.str (a ++ b), .str a] = .ok (.bool true) ∧
    applyBuiltin ctx .endsWith [.str (a ++ b), .str b] = .ok (.bool true) ∧
    applyBuiltin ctx .contains [.str (a ++ b), .str a] = .ok (.bool true) ∧
    applyBuiltin ctx .contains [.str (a ++ b), .str b] = .ok (.bool true) := by
  refine ⟨by simp [arith], ?_, ?_, ?_, ?_⟩
  · exact (startsWith_iff_concat ctx _ _).2 ⟨b, rfl⟩
  · exact (endsWith_iff_concat ctx _ _).2 ⟨a, rfl⟩
  · exact (contains_str_iff_concat ctx _ _).2 ⟨[], b, rfl⟩
  · exact (contains_str_iff_concat ctx _ _).2 ⟨a, [], by simp⟩

/-- every string starts with, ends with and contains itself and the empty string -/
theorem string_tests_reflexive (ctx : Ctx) (t : Str) :
    applyBuiltin ctx .startsWith [.str t, .str t] = .ok (.bool true) ∧
    applyBuiltin ctx .endsWith [.str t, .str t] = .ok (.bool true) ∧
    applyBuiltin ctx .contains [.str t, .str t] = .ok (.bool true) ∧
    applyBuiltin ctx .startsWith [.str t, .str []] = .ok (.bool true) ∧
    applyBuiltin ctx .endsWith [.str t, .str []] = .ok (.bool true) ∧
    applyBuiltin ctx .contains [.str t, .str []] = .ok (.bool true) := by
  refine ⟨?_, ?_, ?_, ?_, ?_, ?_⟩
  · exact (startsWith_iff_concat ctx _ _).2 ⟨[], by simp⟩
  · exact (endsWith_iff_concat ctx _ _).2 ⟨[], by simp⟩
  · exact (contains_str_iff_concat ctx _ _).2 ⟨[], [], by simp⟩
  · exact (startsWith_iff_concat ctx _ _).2 ⟨t, by simp⟩
  · exact (endsWith_iff_concat ctx _ _).2 ⟨t, by simp⟩
  · exact (contains_str_iff_concat ctx _ _).2 ⟨[], t, by simp⟩

/-- a contained string is never longer than its container, in the unit `size` reports -/
theorem contains_size_le (ctx : Ctx) (t n : Str)
    (h : applyBuiltin ctx .contains [.str t, .str n] = .ok (.bool true)) :
    strSize n ≤ strSize t := by
  rw [contains_str_iff_concat] at h
  obtain ⟨a, b, rfl⟩ := h
  rw [utf8_size_append, utf8_size_append]
  omega

/-- containment is transitive -/
theorem contains_trans (ctx : Ctx) (t m n : Str)
    (h1 : applyBuiltin ctx .contains [.str t, .str m] = .ok (.bool true))
    (h2 : applyBuiltin ctx .contains [.str m, .str n] = .ok (.bool true)) :
    applyBuiltin ctx .contains [.str t, .str n] = .ok (.bool true) := by
  rw [contains_str_iff_concat] at *
  obtain ⟨a, b, rfl⟩ := h1
  obtain ⟨c, d, rfl⟩ := h2
  exact ⟨a ++ c, d ++ b, by simp⟩

/-- two strings each containing the other are the same string -/
theorem contains_antisymm (ctx : Ctx) (t n : Str)
    (h1 : applyBuiltin ctx .contains [.str t, .str n] = .ok (.bool true))
    (h2 : applyBuiltin ctx .contains [.str n, .str t] = .ok (.bool true)) : t = n := by
  rw [contains_str_iff_concat] at *
  obtain ⟨a, b, h1⟩ := h1
  obtain ⟨c, d, h2⟩ := h2
  have l1 := congrArg List.length h1
  have l2 := congrArg List.length h2
  simp only [List.length_append] at l1 l2
  have ha : a = [] := List.eq_nil_of_length_eq_zero (by omega)
  have hb : b = [] := List.eq_nil_of_length_eq_zero (by omega)
  subst ha hb
  simpa using h1

/-- the bytes form of `contains` answers the same question about byte strings -/
theorem contains_bytes_iff_concat (ctx : Ctx) (t n : List UInt8) :
    applyBuiltin ctx .contains [.bytes t, .bytes n] = .ok (.bool true) ↔ ∃ a b, t = a ++ n ++ b := by
  simp [applyBuiltin, containsFn, isInfixOf_iff]

-- non-vacuity: the hypotheses are met by ordinary strings, and refuted by others
example (ctx : Ctx) :
    applyBuiltin ctx .contains [.str ['h', 'e', 'l', 'l', 'o'], .str ['e', 'l', 'l']] = .ok (.bool true) :=
  (contains_str_iff_concat ctx _ _).2 ⟨['h'], ['o'], rfl⟩
example (ctx : Ctx) :
    applyBuiltin ctx .contains [.str ['h', 'e', 'l'], .str ['l', 'e']] = .ok (.bool false) := by
  simp [applyBuiltin, containsFn, isInfixOf, isPrefixOf]
example (ctx : Ctx) :
    applyBuiltin ctx .endsWith [.str ['h', 'é', 'l', 'l', 'o'], .str ['l', 'l', 'o']] = .ok (.bool true) :=
  (endsWith_iff_concat ctx _ _).2 ⟨['h', 'é'], rfl⟩

end Cel.Props.C14
