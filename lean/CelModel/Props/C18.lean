import CelModel.Serde
import CelModel.Cmp
import CelModel.Lemmas.SerdeLemmas
/-!
# C18 — exporting a CEL value to JSON is total and faithful

`Serde.toJson` models `Value::json`, `Serde.fromJson` the re-import `to_value(&serde_json::Value)`.
Helper lemmas are in `CelModel/Lemmas/SerdeLemmas.lean` and above the theorems that use them.
-/
namespace Cel.Props.C18
open Cel Cel.Serde Cel.Serde.Lemmas

mutual
/-- the value contains a function value, or a duration outside signed 64-bit nanoseconds -/
def hasBlocker : Value → Bool
  | .fn _ _ => true
  | .dur ns => !inI64 ns
  | .list xs => hasBlockerList xs
  | .map m => hasBlockerEntries m
  | _ => false
def hasBlockerList : List Value → Bool
  | [] => false
  | v :: vs => hasBlocker v || hasBlockerList vs
def hasBlockerEntries : List (Key × Value) → Bool
  | [] => false
  | (_, v) :: es => hasBlocker v || hasBlockerEntries es
end

mutual
theorem total_value : ∀ v : Value, (∃ j, toJson v = .ok j) ↔ hasBlocker v = false
  | .int _ => by simp [toJson, hasBlocker]
  | .uint _ => by simp [toJson, hasBlocker]
  | .dbl _ => by simp [toJson, hasBlocker]
  | .str _ => by simp [toJson, hasBlocker]
  | .bytes _ => by simp [toJson, hasBlocker]
  | .bool _ => by simp [toJson, hasBlocker]
  | .null => by simp [toJson, hasBlocker]
  | .ts _ _ => by simp [toJson, hasBlocker]
  | .fn _ _ => by simp [toJson, hasBlocker]
  | .dur ns => by
    rw [toJson, hasBlocker]
    cases inI64 ns <;> simp
  | .list xs => by
    rw [toJson, hasBlocker, ← total_list xs]
    cases toJsons xs <;> simp [Except.map]
  | .map m => by
    rw [toJson, hasBlocker, ← total_entries m []]
    cases toJsonEntries m [] <;> simp [Except.map]
theorem total_list : ∀ xs : List Value, (∃ js, toJsons xs = .ok js) ↔ hasBlockerList xs = false
  | [] => by simp [toJsons, hasBlockerList]
  | v :: vs => by
    rw [toJsons, hasBlockerList, Bool.or_eq_false_iff, ← total_value v, ← total_list vs]
    cases toJson v <;> cases toJsons vs <;> simp
theorem total_entries : ∀ (es : List (Key × Value)) (acc : List (Str × Json)),
    (∃ r, toJsonEntries es acc = .ok r) ↔ hasBlockerEntries es = false
  | [], acc => by simp [toJsonEntries, hasBlockerEntries]
  | (k, v) :: es, acc => by
    rw [toJsonEntries, hasBlockerEntries, Bool.or_eq_false_iff, ← total_value v]
    cases h : toJson v with
    | error e => simp
    | ok j =>
      simp only []
      rw [total_entries es]
      simp
end

/-- export succeeds exactly for values that contain no function value and no over-wide
duration; for the excluded values it is an error (the model has no other outcome: no panic) -/
theorem to_json_total (v : Value) : (∃ j, toJson v = .ok j) ↔ hasBlocker v = false :=
  total_value v

/-- the structurally corresponding document -/
theorem to_json_shape (i : Int) (s : Str) (b : Bool) (bits : UInt64) (bs : List UInt8)
    (t o : Int) (ns : Int) (hns : inI64 ns = true) :
    toJson (.int i) = .ok (.int i) ∧ toJson (.uint i) = .ok (.int i) ∧ toJson (.str s) = .ok (.str s) ∧
    toJson (.bool b) = .ok (.bool b) ∧ toJson .null = .ok .null ∧
    toJson (.dbl bits) = .ok (if F64.isFinite bits then .float bits else .null) ∧
    toJson (.bytes bs) = .ok (.str (base64 bs)) ∧
    toJson (.ts t o) = .ok (.str (Time.format t o)) ∧
    toJson (.dur ns) = .ok (.int ns) := by
  refine ⟨?_, ?_, ?_, ?_, ?_, ?_, ?_, ?_, ?_⟩ <;> rw [toJson]
  rw [hns]; rfl

theorem toJsons_length : ∀ (xs : List Value) (js : List Json), toJsons xs = .ok js → js.length = xs.length
  | [], js, h => by rw [toJsons] at h; cases h; rfl
  | v :: vs, js, h => by
    rw [toJsons] at h
    cases hv : toJson v with
    | error e => rw [hv] at h; cases h
    | ok j =>
      rw [hv] at h
      cases hvs : toJsons vs with
      | error e => rw [hvs] at h; cases h
      | ok js' =>
        rw [hvs] at h
        cases h
        simp [toJsons_length vs js' hvs]

/-- lists become arrays of the exported elements, in order -/
theorem list_to_array (xs : List Value) (js : List Json) (h : toJsons xs = .ok js) :
    toJson (.list xs) = .ok (.arr js) ∧ js.length = xs.length := by
  refine ⟨?_, toJsons_length xs js h⟩
  rw [toJson, h]; rfl

theorem base64_length_aux : ∀ (bs : List UInt8), (base64 bs).length = 4 * ((bs.length + 2) / 3)
  | [] => by simp [base64]
  | [_] => by simp [base64]
  | [_, _] => by simp [base64]
  | _ :: _ :: _ :: rest => by
    simp only [base64, List.length_cons, base64_length_aux rest]
    omega

/-- base64: 4 output characters per 3 input bytes, padded; all from the standard alphabet -/
theorem base64_length (bs : List UInt8) : (base64 bs).length = 4 * ((bs.length + 2) / 3) :=
  base64_length_aux bs

def isB64Char (c : Char) : Bool :=
  ('A' ≤ c && c ≤ 'Z') || ('a' ≤ c && c ≤ 'z') || ('0' ≤ c && c ≤ '9') || c == '+' || c == '/' || c == '='

theorem b64Char_ok (n : Nat) : isB64Char (b64Char n) = true := by
  by_cases h : n < 64
  · have : ∀ k : Fin 64, isB64Char (b64Char k.val) = true := by decide
    exact this ⟨n, h⟩
  · have h1 : ¬ n < 26 := by omega
    have h2 : ¬ n < 52 := by omega
    have h3 : ¬ n < 62 := by omega
    have h4 : (n == 62) = false := by simp; omega
    simp only [b64Char, h1, h2, h3, h4, if_false]
    decide

theorem base64_alphabet_aux : ∀ (bs : List UInt8), ∀ c ∈ base64 bs, isB64Char c = true
  | [] => by simp [base64]
  | [_] => by
    intro c hc
    simp only [base64, List.mem_cons, List.not_mem_nil, or_false] at hc
    rcases hc with rfl | rfl | rfl | rfl
    · exact b64Char_ok _
    · exact b64Char_ok _
    · decide
    · decide
  | [_, _] => by
    intro c hc
    simp only [base64, List.mem_cons, List.not_mem_nil, or_false] at hc
    rcases hc with rfl | rfl | rfl | rfl
    · exact b64Char_ok _
    · exact b64Char_ok _
    · exact b64Char_ok _
    · decide
  | _ :: _ :: _ :: rest => by
    intro c hc
    simp only [base64, List.mem_cons] at hc
    rcases hc with rfl | rfl | rfl | rfl | hc
    · exact b64Char_ok _
    · exact b64Char_ok _
    · exact b64Char_ok _
    · exact b64Char_ok _
    · exact base64_alphabet_aux rest c hc

theorem base64_alphabet (bs : List UInt8) : ∀ c ∈ base64 bs, isB64Char c = true :=
  base64_alphabet_aux bs

mutual
/-- JSON-native values: int, uint, finite double, string, bool, null, lists and maps with
string keys (pairwise distinct) of such -/
def JsonNativeValue : Value → Bool
  | .int i => inI64 i
  | .uint n => inU64 n
  | .dbl b => F64.isFinite b
  | .str _ => true
  | .bool _ => true
  | .null => true
  | .list xs => JsonNativeValues xs
  | .map m => JsonNativeMap m
  | _ => false
def JsonNativeValues : List Value → Bool
  | [] => true
  | v :: vs => JsonNativeValue v && JsonNativeValues vs
def JsonNativeMap : List (Key × Value) → Bool
  | [] => true
  | (k, v) :: es =>
    (match k with | .str _ => true | _ => false) && JsonNativeValue v && JsonNativeMap es
      && !(es.any (fun e => e.1 == k))
end

/-- entry-by-entry round trip: string keys, exported values, and the re-imported value equals
the original -/
def RT : MapV → List (Str × Json) → Prop
  | [], [] => True
  | (k, v) :: r, (s, j) :: jr =>
    k = .str s ∧ toJson v = .ok j ∧ Value.eq (fromJson j) v = true ∧ RT r jr
  | _, _ => False

theorem rt_rel : ∀ (m : MapV) (jm : List (Str × Json)), RT m jm → Rel m jm
  | [], [], _ => by simp [Rel]
  | [], _ :: _, h => by simp [RT] at h
  | _ :: _, [], h => by simp [RT] at h
  | (k, v) :: r, (s, j) :: jr, h => by
    simp only [RT] at h
    simp only [Rel]
    exact ⟨h.1, h.2.1, rt_rel r jr h.2.2.2⟩

theorem rt_find : ∀ (m : MapV) (jm : List (Str × Json)), RT m jm → (m.map (·.1)).Nodup →
    ∀ p ∈ jm, Key.str p.1 ∈ m.map (·.1) ∧
      ∃ v', MapV.find? m (.str p.1) = some v' ∧ Value.eq (fromJson p.2) v' = true
  | [], [], _, _ => by simp
  | [], _ :: _, h, _ => by simp [RT] at h
  | _ :: _, [], h, _ => by simp [RT] at h
  | (k, v) :: r, (s, j) :: jr, h, hn => by
    simp only [RT] at h
    obtain ⟨hk, _, he, hr⟩ := h
    subst hk
    simp only [List.map_cons, List.nodup_cons] at hn
    intro p hp
    simp only [List.mem_cons] at hp
    rcases hp with rfl | hp
    · exact ⟨by simp, v, by simp [MapV.find?], he⟩
    · obtain ⟨hmem, v', hf, hv'⟩ := rt_find r jr hr hn.2 p hp
      have hne : ¬ (Key.str s = Key.str p.1) := by
        intro e; rw [← e] at hmem; exact hn.1 hmem
      exact ⟨by simp [hmem], v', by simp [MapV.find?, hne, hf], hv'⟩

theorem f64_eq_self (b : UInt64) (h : F64.isFinite b = true) : Value.eq (.dbl b) (.dbl b) = true := by
  rw [Value.eq]
  unfold F64.isFinite at h
  cases hd : F64.decode b with
  | nan => rw [hd] at h; cases h
  | inf n => rw [hd] at h; cases h
  | fin n m e =>
    simp [F64.cmpDD, F64.keyD, F64.EInt.cmp]

theorem nodup_of_native : ∀ m : MapV, JsonNativeMap m = true → (m.map (·.1)).Nodup
  | [], _ => by simp
  | (k, v) :: es, h => by
    simp only [JsonNativeMap, Bool.and_eq_true] at h
    obtain ⟨⟨_, hes⟩, hk⟩ := h
    simp only [List.map_cons, List.nodup_cons]
    refine ⟨?_, nodup_of_native es hes⟩
    intro hm
    simp only [List.mem_map] at hm
    obtain ⟨e, he, hek⟩ := hm
    have : es.any (fun e => e.1 == k) = true := by
      rw [List.any_eq_true]
      exact ⟨e, he, by simp [hek]⟩
    simp [this] at hk

mutual
theorem rt_value : ∀ v : Value, JsonNativeValue v = true →
    ∃ j, toJson v = .ok j ∧ Value.eq (fromJson j) v = true
  | .int i, _ => by
    refine ⟨.int i, by rw [toJson], ?_⟩
    rw [fromJson]
    split <;> simp [Value.eq]
  | .uint n, _ => by
    refine ⟨.int n, by rw [toJson], ?_⟩
    rw [fromJson]
    split <;> simp [Value.eq]
  | .dbl b, h => by
    rw [JsonNativeValue] at h
    refine ⟨.float b, by rw [toJson, h]; rfl, ?_⟩
    rw [fromJson]
    exact f64_eq_self b h
  | .str s, _ => ⟨.str s, by rw [toJson], by simp [fromJson, Value.eq]⟩
  | .bool b, _ => ⟨.bool b, by rw [toJson], by simp [fromJson, Value.eq]⟩
  | .null, _ => ⟨.null, by rw [toJson], by simp [fromJson, Value.eq]⟩
  | .bytes _, h => by simp [JsonNativeValue] at h
  | .dur _, h => by simp [JsonNativeValue] at h
  | .ts _ _, h => by simp [JsonNativeValue] at h
  | .fn _ _, h => by simp [JsonNativeValue] at h
  | .list xs, h => by
    rw [JsonNativeValue] at h
    obtain ⟨js, h1, h2⟩ := rt_list xs h
    refine ⟨.arr js, by rw [toJson, h1]; rfl, ?_⟩
    rw [fromJson, Value.eq]
    exact h2
  | .map m, h => by
    rw [JsonNativeValue] at h
    obtain ⟨jm, hrt⟩ := rt_map m h
    have hn := nodup_of_native m h
    have hrel := rt_rel m jm hrt
    have hjn := rel_nodup m jm hrel hn
    refine ⟨.obj jm, ?_, ?_⟩
    · rw [toJson, rel_export m jm [] hrel (by simpa using hjn)]; rfl
    · rw [fromJson, fromJsonFields_fresh jm [] (by rw [← rel_keys m jm hrel]; simpa using hn),
        Value.eq]
      simp only [List.nil_append, List.length_map, rel_length m jm hrel, beq_self_eq_true,
        Bool.true_and]
      apply eqEntries_of_forall
      intro e he
      simp only [List.mem_map] at he
      obtain ⟨p, hp, rfl⟩ := he
      exact (rt_find m jm hrt hn p hp).2
theorem rt_list : ∀ xs : List Value, JsonNativeValues xs = true →
    ∃ js, toJsons xs = .ok js ∧ eqList (fromJsons js) xs = true
  | [], _ => ⟨[], by rw [toJsons], by rw [fromJsons, eqList]⟩
  | v :: vs, h => by
    rw [JsonNativeValues, Bool.and_eq_true] at h
    obtain ⟨j, h1, h2⟩ := rt_value v h.1
    obtain ⟨js, g1, g2⟩ := rt_list vs h.2
    refine ⟨j :: js, by rw [toJsons, h1, g1], ?_⟩
    rw [fromJsons, eqList, h2, g2]; rfl
theorem rt_map : ∀ m : List (Key × Value), JsonNativeMap m = true → ∃ jm, RT m jm
  | [], _ => ⟨[], by simp [RT]⟩
  | (k, v) :: es, h => by
    simp only [JsonNativeMap, Bool.and_eq_true] at h
    obtain ⟨⟨⟨hk, hv⟩, hes⟩, _⟩ := h
    obtain ⟨j, h1, h2⟩ := rt_value v hv
    obtain ⟨jr, hr⟩ := rt_map es hes
    cases k with
    | str s => exact ⟨(s, j) :: jr, by simp [RT, h1, h2, hr]⟩
    | _ => simp at hk
end

/-- importing the exported document back yields a value equal (CEL equality, which identifies
an int with the numerically equal uint) to the original, for JSON-native values with distinct
keys -/
theorem json_roundtrip (v : Value) (h : JsonNativeValue v = true) :
    ∃ j, toJson v = .ok j ∧ Value.eq (fromJson j) v = true := rt_value v h

/-! ### non-vacuity -/
example : toJson (.list [.int 1, .fn "f" []]) = .error .value := by
  simp [toJson, toJsons, Except.map]
example : toJson (.map [(.int 1, .bytes [77, 97, 110])]) = .ok (.obj [("1".toList, .str "TWFu".toList)]) := by
  have h1 : intToDec 1 = "1".toList := by decide
  have h2 : base64 [77, 97, 110] = "TWFu".toList := by decide
  simp [toJson, toJsonEntries, objInsert, Except.map, Key.toText, h1, h2]

end Cel.Props.C18
