import CelModel.Eval
import CelModel.Props.C08
import CelModel.Lemmas.DurRoundTrip
/-!
# C15 — durations parse, print, add and compare exactly

`Dur.format` is the integer algorithm of `format_duration` (a port of Go's `Duration.String`),
`Dur.parse` the term parser of `duration()`.  Statements only (to be proved).
-/
namespace Cel.Props.C15
open Cel

/-! ## the grammar `duration()` accepts -/

def isDigitC (c : Char) : Prop := '0' ≤ c ∧ c ≤ '9'

/-- the unit suffixes -/
inductive IsUnit : Str → Prop
  | ns : IsUnit ['n', 's']
  | us : IsUnit ['u', 's']
  | micro : IsUnit ['µ', 's']
  | mu : IsUnit ['μ', 's']
  | ms : IsUnit ['m', 's']
  | s : IsUnit ['s']
  | m : IsUnit ['m']
  | h : IsUnit ['h']

/-- one term: digits with an optional fraction (at least one digit overall), then a unit -/
inductive IsTerm : Str → Prop
  | mk (ip fp : Str) (dot : Bool) (u : Str)
      (hi : ∀ c ∈ ip, isDigitC c) (hf : ∀ c ∈ fp, isDigitC c)
      (hne : ip ≠ [] ∨ fp ≠ []) (hdot : dot = false → fp = []) (hu : IsUnit u) :
      IsTerm (ip ++ (if dot then ['.'] else []) ++ fp ++ u)

/-- one or more terms -/
inductive IsTerms : Str → Prop
  | one (t : Str) : IsTerm t → IsTerms t
  | cons (t rest : Str) : IsTerm t → IsTerms rest → IsTerms (t ++ rest)

/-- the whole text: an optional sign, then `0` or a term sequence — nothing else -/
inductive IsDurationText : Str → Prop
  | zero (neg : Bool) : IsDurationText ((if neg then ['-'] else []) ++ ['0'])
  | terms (neg : Bool) (body : Str) : IsTerms body → IsDurationText ((if neg then ['-'] else []) ++ body)

/-! ### helper lemmas: what each parser stage consumes is in the grammar -/

theorem isDigitC_of_isDigit {c : Char} (h : Dur.isDigit c = true) : isDigitC c :=
  (Dur.isDigit_iff c).1 h

theorem takeUnit_isUnit (s : Str) (u : Nat) (rest : Str) (h : Dur.takeUnit s = some (u, rest)) :
    ∃ us, IsUnit us ∧ s = us ++ rest := by
  rcases Dur.takeUnit_spec s u rest h with h | h | h | h | h | h | h | h
  · exact ⟨_, .ns, h⟩
  · exact ⟨_, .us, h⟩
  · exact ⟨_, .micro, h⟩
  · exact ⟨_, .mu, h⟩
  · exact ⟨_, .ms, h⟩
  · exact ⟨_, .s, h⟩
  · exact ⟨_, .m, h⟩
  · exact ⟨_, .h, h⟩

theorem takeTerm_isTerm (s : Str) (v : Nat) (rest : Str) (h : Dur.takeTerm s = some (v, rest)) :
    ∃ t, IsTerm t ∧ s = t ++ rest := by
  rw [Dur.takeTerm_def] at h
  obtain ⟨hs, hip, _⟩ := Dur.takeDigits_spec s
  obtain ⟨dot, hr, hfp, hdot⟩ := Dur.fracPart_spec (Dur.takeDigits s).2
  generalize (Dur.takeDigits s).1 = ip at *
  generalize (Dur.takeDigits s).2 = r1 at *
  generalize (Dur.fracPart r1).1 = fp at *
  generalize (Dur.fracPart r1).2 = r2 at *
  split at h
  · exact absurd h (by simp)
  · next hne =>
    split at h
    · exact absurd h (by simp)
    · next unit rest' hu =>
      simp only [Option.some.injEq, Prod.mk.injEq] at h
      obtain ⟨_, hrest⟩ := h
      subst hrest
      obtain ⟨us, hus, hr2⟩ := takeUnit_isUnit r2 unit rest' hu
      have hne' : ip ≠ [] ∨ fp ≠ [] := by
        cases ip with
        | cons _ _ => exact Or.inl (by simp)
        | nil =>
          cases fp with
          | cons _ _ => exact Or.inr (by simp)
          | nil => simp at hne
      refine ⟨_, IsTerm.mk ip fp dot us (fun c hc => isDigitC_of_isDigit (hip c hc))
        (fun c hc => isDigitC_of_isDigit (hfp c hc)) hne' hdot hus, ?_⟩
      rw [hs, hr, hr2]
      simp only [List.append_assoc]

theorem parseTerms_isTerms (fuel : Nat) (s : Str) (acc v : Nat)
    (h : Dur.parseTerms fuel s acc = some v) : IsTerms s := by
  induction fuel generalizing s acc with
  | zero => simp [Dur.parseTerms] at h
  | succ f ih =>
    unfold Dur.parseTerms at h
    split at h
    · exact absurd h (by simp)
    · next w rest ht =>
      obtain ⟨t, hterm, hs⟩ := takeTerm_isTerm s w rest ht
      split at h
      · next he =>
        have : rest = [] := by cases rest <;> simp_all
        subst this
        rw [hs, List.append_nil]
        exact .one t hterm
      · rw [hs]
        exact .cons t rest hterm (ih rest _ h)

/-- `duration()` accepts a string only if the whole of it is a sequence of
decimal-number-plus-unit terms, optionally signed: trailing text, a missing unit, inner signs,
exponents, `inf`, `nan`, spaces are all rejected because they are not in the grammar. -/
theorem parse_accepts_only_full_term_sequences (s : Str) (v : Int) (h : Dur.parse s = some v) :
    IsDurationText s := by
  rw [Dur.parse_def] at h
  have hs := Dur.signPart_spec s
  generalize (Dur.signPart s).1 = neg at *
  generalize (Dur.signPart s).2 = body at *
  rw [hs]
  split at h
  · next hz =>
    have : body = ['0'] := by simpa using hz
    subst this
    exact .zero neg
  · split at h
    · exact absurd h (by simp)
    · next mag hp => exact .terms neg body (parseTerms_isTerms _ _ _ _ hp)

/-- the accepted value always fits signed 64-bit nanoseconds -/
theorem parse_value_in_range (s : Str) (v : Int) (h : Dur.parse s = some v) : inI64 v = true := by
  rw [Dur.parse_def] at h
  split at h
  · simp only [Option.some.injEq] at h
    subst h; rfl
  · split at h
    · exact absurd h (by simp)
    · simp only [Option.ite_none_right_eq_some, Option.some.injEq] at h
      obtain ⟨hin, rfl⟩ := h
      exact hin

/-- the value of a single term is exact: whole part times the unit plus the fraction times the
unit, truncated toward zero (fraction digits beyond the 18th ignored) -/
theorem term_value_exact (ip fp : Str) (unit : Nat) (u rest : Str)
    (hi : ∀ c ∈ ip, '0' ≤ c ∧ c ≤ '9') (hf : ∀ c ∈ fp, '0' ≤ c ∧ c ≤ '9') (hne : ip ≠ [] ∨ fp ≠ [])
    (hu : Dur.takeUnit (u ++ rest) = some (unit, rest))
    (hu0 : ∀ c, u.head? = some c → ¬ ('0' ≤ c ∧ c ≤ '9') ∧ c ≠ '.') (hune : u ≠ []) :
    Dur.takeTerm (ip ++ ['.'] ++ fp ++ u ++ rest) =
      some (Dur.digitsToNat ip * unit + Dur.digitsToNat (fp.take 18) * unit / 10 ^ (fp.take 18).length, rest) := by
  have hh : Dur.NoDigitHead (u ++ rest) := by
    intro c hc
    cases u with
    | nil => exact absurd rfl hune
    | cons x xs =>
      simp only [List.cons_append, List.head?_cons, Option.some.injEq] at hc
      subst hc
      exact (Dur.isDigit_false_iff _).2 (hu0 _ rfl).1
  have := Dur.takeTerm_frac ip fp (u ++ rest) unit rest
    (fun c hc => (Dur.isDigit_iff c).2 (hi c hc)) (fun c hc => (Dur.isDigit_iff c).2 (hf c hc))
    hne hh hu
  rw [← this]
  simp only [List.append_assoc, List.cons_append, List.nil_append]

/-! ## printing -/

theorem format_zero : Dur.format 0 = "0s".toList := by
  decide

/-- negative durations print as `-` followed by the magnitude's rendering -/
theorem format_neg (ns : Int) (h : ns < 0) : Dur.format ns = '-' :: Dur.formatMag ns.natAbs := by
  simp [Dur.format, h]

theorem format_nonneg (ns : Int) (h : 0 ≤ ns) : Dur.format ns = Dur.formatMag ns.natAbs := by
  have : ¬ ns < 0 := by omega
  simp [Dur.format, this]

/-- below one second the unit is ns / µs / ms with a non-zero leading digit -/
theorem format_subsecond (u : Nat) (h0 : 0 < u) (h : u < 1000000000) :
    (u < 1000 → Dur.formatMag u = natToDec u ++ "ns".toList) ∧
    (1000 ≤ u → u < 1000000 → Dur.formatMag u = natToDec (u / 1000) ++ (Dur.fmtFrac 3 u false []).1 ++ "µs".toList) ∧
    (1000000 ≤ u → Dur.formatMag u = natToDec (u / 1000000) ++ (Dur.fmtFrac 6 u false []).1 ++ "ms".toList) := by
  refine ⟨fun h3 => ?_, fun h3 h6 => ?_, fun h6 => ?_⟩
  · rw [Dur.formatMag_ns u (by omega) h3]; simp
  · rw [Dur.formatMag_micro u h3 h6, Dur.fmtFrac_eq]; simp
  · rw [Dur.formatMag_ms u h6 h, Dur.fmtFrac_eq]; simp

/-- the fractional part: `prec` digits, trailing zeros trimmed, nothing at all when zero -/
theorem fmtFrac_quotient (prec v : Nat) : (Dur.fmtFrac prec v false []).2 = v / 10 ^ prec := by
  rw [Dur.fmtFrac_eq]

theorem fmtFrac_zero_fraction (prec v : Nat) (h : v % 10 ^ prec = 0) :
    (Dur.fmtFrac prec v false []).1 = [] := by
  rw [Dur.fmtFrac_eq]
  simp [Dur.fracStr, Dur.frac_eq_nil_of_mod prec v h]

/-- ROUND TRIP: for every duration representable in signed 64-bit nanoseconds,
`duration(string(d)) == d`. -/
theorem parse_format_roundtrip (ns : Int) (h : inI64 ns = true) :
    Dur.parse (Dur.format ns) = some ns :=
  Dur.parse_format ns h

/-! ## arithmetic and comparison act on the exact nanosecond counts -/

theorem add_sub_exact_or_error (a b : Int) :
    arith .add (.dur a) (.dur b) =
      (if Dur.inRange (a + b) then .ok (.dur (a + b)) else .err .overflow) ∧
    arith .sub (.dur a) (.dur b) =
      (if Dur.inRange (a - b) then .ok (.dur (a - b)) else .err .overflow) := by
  constructor <;> simp [arith]

theorem cmp_is_nanos_cmp (a b : Int) :
    Value.partialCmp (.dur a) (.dur b) = some (compare a b) ∧ Value.eq (.dur a) (.dur b) = (a == b) := by
  constructor <;> simp [Value.partialCmp, Value.eq]

theorem duration_ops_no_panic (op : ArithOp) (a b : Int) :
    (arith op (.dur a) (.dur b)).isPanic = false :=
  C08.arith_no_panic op _ _

/-! ### non-vacuity -/
example : Dur.parse "1h30m".toList = some 5400000000000 := by
  decide
example : Dur.parse "1s foo".toList = none ∧ Dur.parse "--1s".toList = none ∧ Dur.parse "1e3s".toList = none
    ∧ Dur.parse "infs".toList = none ∧ Dur.parse "1".toList = none := by
  decide
example : Dur.format (-2000000000) = "-2s".toList ∧ Dur.format 1500000 = "1.5ms".toList := by
  decide

end Cel.Props.C15
