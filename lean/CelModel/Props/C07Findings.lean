import CelModel.Props.C07Cost
/-!
# C07 — the recorded defect D27, as a theorem about the model

`strict…once` and the cost theorems of C07 / C07Cost assume `CtxLinear`: no registered host
function combines the all-arguments extractor with another argument-consuming extractor.  The
assumption is needed: with the signature `(This<T>, Arguments)` a global-style call evaluates its
first argument twice — once as the receiver, once as part of `Arguments`.  The witness below is
replayed on the implementation by the C07 check (known finding D27).
-/
namespace Cel.Props.C07
open Cel

/-- a context with a logging identity `t` and a host function `ta(This<Value>, Arguments)` -/
def d27Ctx : Ctx :=
  { scopes := [[]],
    fns := [("t", .host [.pos .value] .first),
            ("ta", .host [.this .value, .allArgs] (.const (.int 7)))] }

/-- `ta(t(1), t(2))` -/
def d27Call : Expr := .call "ta" [.call "t" [.lit (.int 1)], .call "t" [.lit (.int 2)]]
/-- `t(1).ta(t(2))` -/
def d27Method : Expr := .mcall "ta" (.call "t" [.lit (.int 1)]) [.call "t" [.lit (.int 2)]]

/-- D27: in global style the first argument is evaluated twice (`t` is logged three times for two
`t(…)` operands) … -/
theorem this_plus_arguments_counterexample :
    ((execute d27Ctx d27Call).2.log.map (·.name)) = ["t", "t", "t", "ta"] := by
  decide

/-- … while in receiver style every operand is evaluated once -/
theorem this_plus_arguments_receiver_style_once :
    ((execute d27Ctx d27Method).2.log.map (·.name)) = ["t", "t", "ta"] := by
  decide

/-- and the signature is exactly what `CtxLinear` excludes -/
theorem d27_not_linear : ¬ C07Cost.CtxLinear d27Ctx := by
  intro h
  have := h "ta" [.this .value, .allArgs] (.const (.int 7)) (by rfl)
  revert this
  decide

end Cel.Props.C07
