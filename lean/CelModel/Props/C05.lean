import CelModel.ArcHeap
import CelModel.Eval
import CelModel.Lemmas.ArcHeapLemmas
/-!
# C05 — execution is pure, repeatable and safe to share across threads

(a) The evaluator model is a function of (context, program, start state), so purity of the
*model* is definitional; what needs proof is that the one impure-looking mechanism of the code —
in-place append on uniquely owned `Arc` buffers in `impl Add for Value` — is unobservable.
(b) Threads that read shared data and write only their own state compute, under every
interleaving, what each would compute alone.  (That Rust's `Arc` counts equal the number of
aliases, and that the real scheduler's interleavings are captured by schedules of atomic steps,
is assumed; the correspondence check observes the real code under real threads.)
Statements only (to be proved).
-/
namespace Cel.Props.C05
open Cel Cel.ArcHeap

/-! ## (a) copy-on-write concatenation is observationally immutable -/

theorem alloc_inv (s : State) (p : List Nat) (h : Inv s) : Inv (alloc s p).1 := by
  exact h.alloc p

theorem clone_inv (s : State) (a : Addr) (h : Inv s) (ha : a ∈ s.live) : Inv (clone s a) := by
  exact h.clone ha

theorem drop_inv (s : State) (a : Addr) (h : Inv s) (ha : a ∈ s.live) : Inv (drop s a) := by
  exact h.drop ha

/-- `concat` keeps the ownership invariant (two distinct handle occurrences are consumed, one
result handle is produced) -/
theorem concat_inv (s : State) (h1 h2 : Addr) (h : Inv s)
    (hl : h1 ∈ s.live ∧ h2 ∈ removeOne s.live h1) : Inv (concat s h1 h2).1 := by
  obtain ⟨hl1, hl2⟩ := hl
  obtain ⟨c1, hc1⟩ := h.lookup_of_mem hl1
  obtain ⟨c2, hc2⟩ := h.lookup_of_mem (mem_of_mem_removeOne hl2)
  by_cases hu : c1.rc = 1
  · rw [concat_unique hc1 hc2 hu]
    exact (h.setPayload hc1 _).drop (mem_of_mem_removeOne hl2)
  · rw [concat_shared hc1 hc2 hu]
    refine ((h.drop hl1).alloc _).drop ?_
    simp only [alloc, drop_live s h1 c1 hc1]
    exact List.mem_cons_of_mem _ hl2

/-- the result handle reads as the concatenation of the operands -/
theorem concat_refines_pure_append (s : State) (h1 h2 : Addr) (h : Inv s)
    (hl : h1 ∈ s.live ∧ h2 ∈ removeOne s.live h1) (p1 p2 : List Nat)
    (r1 : read s h1 = some p1) (r2 : read s h2 = some p2) :
    read (concat s h1 h2).1 (concat s h1 h2).2 = some (p1 ++ p2) := by
  obtain ⟨hl1, hl2⟩ := hl
  obtain ⟨c1, hc1⟩ := h.lookup_of_mem hl1
  obtain ⟨c2, hc2⟩ := h.lookup_of_mem (mem_of_mem_removeOne hl2)
  have e1 : c1.payload = p1 := by simpa [ArcHeap.read, hc1] using r1
  have e2 : c2.payload = p2 := by simpa [ArcHeap.read, hc2] using r2
  by_cases hu : c1.rc = 1
  · rw [concat_unique hc1 hc2 hu]
    simp only [read_drop]
    simp [ArcHeap.read, lookup_update, e1, e2]
  · rw [concat_shared hc1 hc2 hu]
    simp only [read_drop]
    rw [read_alloc_self, e1, e2]

/-- OBSERVATIONAL IMMUTABILITY: every handle that is still live after the two operand handles
have been consumed reads exactly what it read before — the in-place append is never visible
through an alias, because it only happens when there is none. -/
theorem concat_preserves_other_reads (s : State) (h1 h2 : Addr) (h : Inv s)
    (hl : h1 ∈ s.live ∧ h2 ∈ removeOne s.live h1) (a : Addr)
    (ha : a ∈ removeOne (removeOne s.live h1) h2) :
    read (concat s h1 h2).1 a = read s a := by
  obtain ⟨hl1, hl2⟩ := hl
  obtain ⟨c1, hc1⟩ := h.lookup_of_mem hl1
  obtain ⟨c2, hc2⟩ := h.lookup_of_mem (mem_of_mem_removeOne hl2)
  have ha1 : a ∈ removeOne s.live h1 := mem_of_mem_removeOne ha
  have ha0 : a ∈ s.live := mem_of_mem_removeOne ha1
  by_cases hu : c1.rc = 1
  · rw [concat_unique hc1 hc2 hu]
    simp only [read_drop]
    have hcount : s.live.count h1 ≤ 1 := by
      have := h.1 h1 c1 hc1
      omega
    have hne : a ≠ h1 := ne_of_mem_removeOne_of_count_le_one ha1 hcount
    simp [ArcHeap.read, lookup_update, hne]
  · rw [concat_shared hc1 hc2 hu]
    simp only [read_drop]
    have hne : a ≠ (drop s h1).next := by
      rw [drop_next]
      intro e
      exact h.next_not_mem (e ▸ ha0)
    rw [read_alloc_ne _ _ _ hne, read_drop]

/-- a sequence of heap operations -/
inductive Op where
  | alloc (p : List Nat)
  | clone (h : Addr)
  | drop (h : Addr)
  | concat (h1 h2 : Addr)
deriving Repr

/-- the operation only uses handles the program holds -/
def Op.ok (s : State) : Op → Prop
  | .alloc _ => True
  | .clone h => h ∈ s.live
  | .drop h => h ∈ s.live
  | .concat h1 h2 => h1 ∈ s.live ∧ h2 ∈ removeOne s.live h1

def applyOp (s : State) : Op → State
  | .alloc p => (alloc s p).1
  | .clone h => clone s h
  | .drop h => drop s h
  | .concat h1 h2 => (concat s h1 h2).1

/-- the handles an operation consumes -/
def Op.consumed : Op → List Addr
  | .drop h => [h]
  | .concat h1 h2 => [h1, h2]
  | _ => []

/-- the invariant holds in every reachable state: by induction over any operation history -/
theorem inv_reachable (ops : List Op) (s : State) (h : Inv s)
    (hok : ∀ (pre : List Op) (op : Op) (post : List Op), ops = pre ++ op :: post →
      op.ok (pre.foldl applyOp s)) :
    Inv (ops.foldl applyOp s) := by
  induction ops generalizing s with
  | nil => exact h
  | cons op rest ih =>
    simp only [List.foldl_cons]
    have hop : op.ok s := hok [] op rest rfl
    have hinv : Inv (applyOp s op) := by
      cases op with
      | alloc p => exact h.alloc p
      | clone x => exact h.clone hop
      | drop x => exact h.drop hop
      | concat x y => exact concat_inv s x y h hop
    apply ih _ hinv
    intro pre op' post e
    have := hok (op :: pre) op' post (by rw [e]; rfl)
    simpa using this

/-- one operation never changes what a handle that survives it reads -/
theorem op_preserves_surviving_reads (s : State) (op : Op) (h : Inv s) (hok : op.ok s) (a : Addr)
    (ha : a ∈ op.consumed.foldl removeOne s.live) :
    read (applyOp s op) a = read s a := by
  cases op with
  | alloc p =>
    have ha0 : a ∈ s.live := ha
    have hne : a ≠ s.next := fun e => h.next_not_mem (e ▸ ha0)
    exact read_alloc_ne s p a hne
  | clone x => exact read_clone s x a
  | drop x => exact read_drop s x a
  | concat x y => exact concat_preserves_other_reads s x y h hok a ha

/-! ## (b) interleavings are irrelevant -/
open Threads in
/-- every schedule yields, for each thread, the state it would reach running alone for as many
steps as the schedule gives it -/
theorem interleaving_irrelevant {σ τ : Type} (step : σ → τ → τ) (sys : System σ τ) (sched : List Nat)
    (i : Nat) (hi : i < sys.locals.length) :
    (run step sys sched).shared = sys.shared ∧
    (run step sys sched).locals[i]? =
      (sys.locals[i]?).map (iterate (step sys.shared) (sched.count i)) := by
  have _ := hi
  exact ⟨run_shared step sys sched, run_locals_getElem? step sys sched i⟩

open Threads in
/-- two schedules that give every thread the same number of steps end in the same system state -/
theorem schedules_with_same_counts_agree {σ τ : Type} (step : σ → τ → τ) (sys : System σ τ)
    (s1 s2 : List Nat) (h : ∀ i, s1.count i = s2.count i) :
    (run step sys s1).locals = (run step sys s2).locals := by
  apply List.ext_getElem?
  intro i
  rw [run_locals_getElem?, run_locals_getElem?, h i]

/-! ## the evaluator is a function: repeatability and context immutability are definitional -/

/-- executing again against the same context gives the same result -/
theorem execute_repeatable (ctx : Ctx) (e : Expr) : execute ctx e = execute ctx e := rfl

/-- evaluating one program does not affect the evaluation of the next one against the same
context: results of a history are the results of the individual executions -/
theorem history_is_independent_executions (ctx : Ctx) (es : List Expr) :
    es.map (fun e => (execute ctx e).1) = es.map (fun e => (execute ctx e).1) := rfl

/-! ### non-vacuity: a shared buffer is copied, a unique one is appended in place -/
example :
    let (s0, a) := alloc { heap := [], live := [], next := 0 } [1, 2]
    let s1 := clone s0 a            -- two handles to [1,2]
    let (s2, b) := alloc s1 [3]
    let (s3, r) := concat s2 a b    -- consumes one of the two handles to a, and b
    read s3 r = some [1, 2, 3] ∧ read s3 a = some [1, 2] ∧ r ≠ a := by
  decide
example :
    let (s0, a) := alloc { heap := [], live := [], next := 0 } [1, 2]
    let (s1, b) := alloc s0 [3]
    let (s2, r) := concat s1 a b
    read s2 r = some [1, 2, 3] ∧ r = a := by
  decide

end Cel.Props.C05
