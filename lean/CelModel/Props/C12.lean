import CelModel.StrLit
/-!
# C12 — string and bytes literals denote exactly the characters written

Statements about the literal decoders `StrLit.parseString` (a character-for-character port of
`antlr/src/parse.rs::parse_string`) and `StrLit.parseBytes` (`visit_Bytes` + `parse_bytes`).
The quote-toggling decoder of the one-line styles has genuine defects (DESIGN.md D5a, D5b:
recorded as known findings); the round-trip theorem for one-line strings is therefore
`string_roundtrip_partial` (no verbatim quote character of either kind, no escaped quote of the
other kind) and the two remaining defects are pinned by the counterexample theorems
`other_quote_escape_counterexample` (D5a) and `raw_backslash_quote_counterexample` /
`raw_dangling_backslash` (D5b).
D5c (triple-quoted literals went through the quote toggling) is REPAIRED in the implementation
and in the model: a triple-quoted text (`isTriple`) has its delimiters stripped once and its
body decoded with quote characters taken literally.  The round trip for triple-quoted literals
is proved (`triple_quoted_roundtrip_partial`: quotes of either kind and line breaks verbatim, all
escape spellings), raw triple-quoted literals denote their body verbatim for every body
(`raw_triple_verbatim`), and the former D5c witnesses now decode to what was written
(`triple_quote_inner_quotes`; the old `triple_quote_counterexample` is gone — it is false now,
by design).  Since the repair, `parseString` takes the quote-toggling path only for texts that
are not triple-quoted: `parseString_style` / `parseString_raw_style` carry that as an explicit
hypothesis, which the users discharge (a spelled or quote-free body never starts with the
delimiter: `spellAll_head_ne_quote`, `not_triple_of_head`).
All statements are proved; `raw_no_escape_processing_partial` as originally stated is false
(the literal `r'\'` — one backslash — see `raw_no_escape_processing_partial_false`) and is replaced by
`raw_no_escape_processing_partial2` + `raw_dangling_backslash` (exact characterisation).
-/
namespace Cel.Props.C12
open Cel Cel.StrLit

/-! ## spelling -/

def hexDigit (n : Nat) : Char := if n < 10 then Char.ofNat (48 + n) else Char.ofNat (87 + n)
def hexDigitUpper (n : Nat) : Char := if n < 10 then Char.ofNat (48 + n) else Char.ofNat (55 + n)

/-- `width` lower-case hex digits of `n`, most significant first -/
def hexN : (width : Nat) → Nat → Str
  | 0, _ => []
  | w + 1, n => hexN w (n / 16) ++ [hexDigit (n % 16)]

def hexNUpper : (width : Nat) → Nat → Str
  | 0, _ => []
  | w + 1, n => hexNUpper w (n / 16) ++ [hexDigitUpper (n % 16)]

/-- three octal digits -/
def oct3 (n : Nat) : Str := [Char.ofNat (48 + n / 64 % 8), Char.ofNat (48 + n / 8 % 8), Char.ofNat (48 + n % 8)]

/-- the quoting styles whose decoding is sound: one-line single / double quotes -/
inductive Style where
  | single | double
deriving Repr, DecidableEq

def Style.quote : Style → Char
  | .single => '\'' | .double => '"'

/-- the ways one character can be written inside a non-raw literal -/
inductive Spelling where
  | verbatim   -- the character itself (not a backslash, not the delimiter, not a line break)
  | simple     -- \a \b \f \n \r \t \v \\ \? \` and the escaped delimiter
  | hexx       -- \xHH   (code points up to 0xFF)
  | hexX       -- \XHH
  | oct        -- \OOO   (code points up to 0xFF)
  | u4         -- \uHHHH (code points up to 0xFFFF)
  | u8         -- \UHHHHHHHH
deriving Repr, DecidableEq

def simpleEscape (st : Style) (c : Char) : Option Char :=
  if c == Char.ofNat 7 then some 'a' else if c == Char.ofNat 8 then some 'b'
  else if c == Char.ofNat 12 then some 'f' else if c == '\n' then some 'n'
  else if c == '\r' then some 'r' else if c == '\t' then some 't'
  else if c == Char.ofNat 11 then some 'v' else if c == '\\' then some '\\'
  else if c == '?' then some '?' else if c == '`' then some '`'
  else if c == st.quote then some c else none

/-- the spelling of one character, when that spelling is available for it -/
def spell (st : Style) (sp : Spelling) (c : Char) : Option Str :=
  match sp with
  | .verbatim =>
    if c == '\\' || c == '\'' || c == '"' || c == '\n' || c == '\r' then none else some [c]
  | .simple => (simpleEscape st c).map (fun e => ['\\', e])
  | .hexx => if c.toNat < 256 then some ('\\' :: 'x' :: hexN 2 c.toNat) else none
  | .hexX => if c.toNat < 256 then some ('\\' :: 'X' :: hexNUpper 2 c.toNat) else none
  | .oct => if c.toNat < 256 then some ('\\' :: oct3 c.toNat) else none
  | .u4 => if c.toNat < 65536 then some ('\\' :: 'u' :: hexN 4 c.toNat) else none
  | .u8 => some ('\\' :: 'U' :: hexN 8 c.toNat)

/-- the body of a literal: each character under its chosen spelling -/
def spellAll (st : Style) : List (Spelling × Char) → Option Str
  | [] => some []
  | (sp, c) :: rest =>
    match spell st sp c, spellAll st rest with
    | some a, some b => some (a ++ b)
    | _, _ => none

/-! ## helper lemmas: digits and numbers -/

theorem charOfNat_valid (n : Nat) (h : n.isValidChar) : charOfNat? n = some (Char.ofNat n) := by
  unfold charOfNat?
  simp [h, Char.ofNat, Char.ofNatAux]
  have hlt : n < 4294967296 := by
    simp only [Nat.isValidChar] at h; omega
  apply UInt32.toNat_inj.mp
  simp [UInt32.toNat_ofNat', UInt32.toNat_ofNatLT]
  omega

theorem charOfNat_invalid (n : Nat) (h : ¬ n.isValidChar) : charOfNat? n = none := by
  unfold charOfNat?
  simp [h]

theorem hexDigit_ok : ∀ d, d < 16 →
    Lexer.isHex (hexDigit d) = true ∧ hexVal (hexDigit d) = d := by decide
theorem hexDigitUpper_ok : ∀ d, d < 16 →
    Lexer.isHex (hexDigitUpper d) = true ∧ hexVal (hexDigitUpper d) = d := by decide
theorem octDigit_ok : ∀ d, d < 8 →
    ('0' ≤ Char.ofNat (48 + d) && Char.ofNat (48 + d) ≤ '7') = true ∧
    hexVal (Char.ofNat (48 + d)) = d := by decide
theorem octLead : ∀ d, d < 4 →
    Char.ofNat (48 + d) = '0' ∨ Char.ofNat (48 + d) = '1' ∨ Char.ofNat (48 + d) = '2' ∨
    Char.ofNat (48 + d) = '3' := by decide

/-- the fold of `parseRadix` -/
def radixStep (radix : Nat) (acc : Option Nat) (c : Char) : Option Nat :=
  match acc with
  | none => none
  | some n =>
    let ok := if radix == 16 then Lexer.isHex c else ('0' ≤ c && c ≤ '7')
    if ok then some (n * radix + hexVal c) else none

theorem parseRadix_eq (radix : Nat) (s : Str) (h : s ≠ []) :
    parseRadix radix s = s.foldl (radixStep radix) (some 0) := by
  unfold parseRadix
  cases s with
  | nil => exact absurd rfl h
  | cons c r => rfl

theorem fold_hexN (w : Nat) : ∀ (n a : Nat), n < 16 ^ w →
    (hexN w n).foldl (radixStep 16) (some a) = some (a * 16 ^ w + n) := by
  induction w with
  | zero => intro n a h; simp at h; simp [hexN, h]
  | succ w ih =>
    intro n a h
    have h1 : n / 16 < 16 ^ w := by
      rw [Nat.pow_succ] at h; omega
    have h2 := hexDigit_ok (n % 16) (by omega)
    simp only [hexN, List.foldl_append, ih _ a h1, List.foldl_cons, List.foldl_nil, radixStep]
    simp [h2.1, h2.2, Nat.pow_succ]
    rw [← Nat.mul_assoc]
    generalize a * 16 ^ w = k
    omega

theorem fold_hexNUpper (w : Nat) : ∀ (n a : Nat), n < 16 ^ w →
    (hexNUpper w n).foldl (radixStep 16) (some a) = some (a * 16 ^ w + n) := by
  induction w with
  | zero => intro n a h; simp at h; simp [hexNUpper, h]
  | succ w ih =>
    intro n a h
    have h1 : n / 16 < 16 ^ w := by
      rw [Nat.pow_succ] at h; omega
    have h2 := hexDigitUpper_ok (n % 16) (by omega)
    simp only [hexNUpper, List.foldl_append, ih _ a h1, List.foldl_cons, List.foldl_nil, radixStep]
    simp [h2.1, h2.2, Nat.pow_succ]
    rw [← Nat.mul_assoc]
    generalize a * 16 ^ w = k
    omega

theorem hexN_length (w n : Nat) : (hexN w n).length = w := by
  induction w generalizing n with
  | zero => rfl
  | succ w ih => simp [hexN, ih]

theorem hexNUpper_length (w n : Nat) : (hexNUpper w n).length = w := by
  induction w generalizing n with
  | zero => rfl
  | succ w ih => simp [hexNUpper, ih]

theorem hexN_ne_nil (w n : Nat) (hw : 0 < w) : hexN w n ≠ [] := by
  intro h
  have := hexN_length w n
  rw [h] at this
  simp at this
  omega

theorem hexNUpper_ne_nil (w n : Nat) (hw : 0 < w) : hexNUpper w n ≠ [] := by
  intro h
  have := hexNUpper_length w n
  rw [h] at this
  simp at this
  omega

/-- number rendering / parsing round trips -/
theorem parseRadix_hexN (w n : Nat) (hw : 0 < w) (hn : n < 16 ^ w) :
    parseRadix 16 (hexN w n) = some n := by
  rw [parseRadix_eq _ _ (hexN_ne_nil w n hw), fold_hexN w n 0 hn]
  simp

theorem parseRadix_hexNUpper (w n : Nat) (hw : 0 < w) (hn : n < 16 ^ w) :
    parseRadix 16 (hexNUpper w n) = some n := by
  rw [parseRadix_eq _ _ (hexNUpper_ne_nil w n hw), fold_hexNUpper w n 0 hn]
  simp

theorem parseRadix_oct3 (n : Nat) (hn : n < 512) : parseRadix 8 (oct3 n) = some n := by
  have h0 := octDigit_ok (n % 8) (by omega)
  have h1 := octDigit_ok (n / 8 % 8) (by omega)
  have h2 := octDigit_ok (n / 64 % 8) (by omega)
  rw [parseRadix_eq _ _ (by simp [oct3])]
  simp only [oct3, List.foldl_cons, List.foldl_nil, radixStep]
  simp [h0.1, h0.2, h1.1, h1.2, h2.1, h2.2]
  omega

theorem unicodeHex_hexN (w n : Nat) (rest : Str) (hw : 0 < w) (hn : n < 16 ^ w) :
    unicodeHex w (hexN w n ++ rest) = (charOfNat? n).map (fun c => (c, rest)) := by
  unfold unicodeHex
  rw [List.take_left' (hexN_length w n), List.drop_left' (hexN_length w n),
    parseRadix_hexN w n hw hn]

theorem unicodeHex_hexNUpper (w n : Nat) (rest : Str) (hw : 0 < w) (hn : n < 16 ^ w) :
    unicodeHex w (hexNUpper w n ++ rest) = (charOfNat? n).map (fun c => (c, rest)) := by
  unfold unicodeHex
  rw [List.take_left' (hexNUpper_length w n), List.drop_left' (hexNUpper_length w n),
    parseRadix_hexNUpper w n hw hn]

theorem unicodeOct_oct3 (n : Nat) (rest : Str) (hn : n < 256) :
    unicodeOct (Char.ofNat (48 + n / 64 % 8))
      (Char.ofNat (48 + n / 8 % 8) :: Char.ofNat (48 + n % 8) :: rest) =
      (charOfNat? n).map (fun c => (c, rest)) := by
  unfold unicodeOct
  have := parseRadix_oct3 n (by omega)
  simp only [oct3] at this
  simp [this]
  omega

theorem isValidChar_of_lt (n : Nat) (h : n < 256) : n.isValidChar := by
  simp [Nat.isValidChar]; omega

theorem char_isValid (c : Char) : c.toNat.isValidChar := by
  exact c.valid

theorem char_toNat_lt (c : Char) : c.toNat < 16 ^ 8 := by
  have := char_isValid c
  simp only [Nat.isValidChar] at this
  omega

/-! ## helper lemmas: the `quoted` state machine -/

def Style.inS : Style → Bool | .single => true | .double => false
def Style.inD : Style → Bool | .single => false | .double => true

/-- the triple-quote test fails on short texts -/
theorem isTriple_short (q : Char) (t : Str) (h : t.length < 6) : isTriple q t = false := by
  simp [isTriple]
  intro h'
  omega

/-- the triple-quote test fails when the first character is not the quote -/
theorem isTriple_first (q a : Char) (r : Str) (h : a ≠ q) : isTriple q (a :: r) = false := by
  simp [isTriple, h]

/-- the triple-quote test fails when the second character is not the quote -/
theorem isTriple_second (q a b : Char) (r : Str) (h : b ≠ q) :
    isTriple q (a :: b :: r) = false := by
  simp [isTriple, h]

/-- a one-line literal whose body is empty or does not start with its own delimiter is not
triple-quoted -/
theorem not_triple_of_head (q : Char) (body : Str) (hh : ∀ a r, body = a :: r → a ≠ q) :
    isTriple q (q :: (body ++ [q])) = false := by
  cases body with
  | nil => exact isTriple_short _ _ (by simp)
  | cons a r => exact isTriple_second _ _ _ _ (hh a r rfl)

/-- a text that is not triple-quoted and starts with a quote goes through the quote-toggling
state machine (the hypothesis `hnt` is new with the D5c repair: a triple-quoted text is
delimited once instead) -/
theorem parseString_style (st : Style) (rest : Str)
    (hnt : isTriple st.quote (st.quote :: rest) = false) :
    parseString (st.quote :: rest) = quoted false (rest.length + 1) rest st.inS st.inD [] := by
  cases st
  · simp only [Style.quote] at hnt
    simp [parseString, Style.quote, Style.inS, Style.inD, hnt,
      isTriple_first '"' '\'' rest (by decide)]
  · simp only [Style.quote] at hnt
    simp [parseString, Style.quote, Style.inS, Style.inD, hnt,
      isTriple_first '\'' '"' rest (by decide)]

theorem quoted_verbatim (lit : Bool) (st : Style) (c : Char) (h1 : c ≠ '\\') (h2 : c ≠ '\'') (h3 : c ≠ '"')
    (f : Nat) (rest acc : Str) :
    quoted lit (f + 1) (c :: rest) st.inS st.inD acc = quoted lit f rest st.inS st.inD (c :: acc) := by
  cases st <;> simp [quoted, Style.inS, Style.inD, h1, h2, h3]

theorem quoted_close (st : Style) (f : Nat) (acc : Str) :
    quoted false (f + 2) [st.quote] st.inS st.inD acc = some acc.reverse := by
  cases st <;> simp [quoted, Style.inS, Style.inD, Style.quote]

theorem quoted_simple (lit : Bool) (st : Style) (c e : Char) (h : simpleEscape st c = some e)
    (f : Nat) (rest acc : Str) :
    quoted lit (f + 1) ('\\' :: e :: rest) st.inS st.inD acc =
      quoted lit f rest st.inS st.inD (c :: acc) := by
  unfold simpleEscape at h
  repeat' split at h
  all_goals first | (cases h; done) | skip
  all_goals simp only [beq_iff_eq, Option.some.injEq] at *
  all_goals subst_vars
  all_goals (cases st <;> simp [quoted, Style.inS, Style.inD, Style.quote])

theorem quoted_x (lit : Bool) (st : Style) (f : Nat) (r2 r3 acc : Str) (v : Char)
    (h : unicodeHex 2 r2 = some (v, r3)) :
    quoted lit (f + 1) ('\\' :: 'x' :: r2) st.inS st.inD acc = quoted lit f r3 st.inS st.inD (v :: acc) := by
  cases st <;> simp [quoted, Style.inS, Style.inD, h]

theorem quoted_X (lit : Bool) (st : Style) (f : Nat) (r2 r3 acc : Str) (v : Char)
    (h : unicodeHex 2 r2 = some (v, r3)) :
    quoted lit (f + 1) ('\\' :: 'X' :: r2) st.inS st.inD acc = quoted lit f r3 st.inS st.inD (v :: acc) := by
  cases st <;> simp [quoted, Style.inS, Style.inD, h]

theorem quoted_u (lit : Bool) (st : Style) (f : Nat) (r2 r3 acc : Str) (v : Char)
    (h : unicodeHex 4 r2 = some (v, r3)) :
    quoted lit (f + 1) ('\\' :: 'u' :: r2) st.inS st.inD acc = quoted lit f r3 st.inS st.inD (v :: acc) := by
  cases st <;> simp [quoted, Style.inS, Style.inD, h]

theorem quoted_U (lit : Bool) (st : Style) (f : Nat) (r2 r3 acc : Str) (v : Char)
    (h : unicodeHex 8 r2 = some (v, r3)) :
    quoted lit (f + 1) ('\\' :: 'U' :: r2) st.inS st.inD acc = quoted lit f r3 st.inS st.inD (v :: acc) := by
  cases st <;> simp [quoted, Style.inS, Style.inD, h]

theorem quoted_u_none (lit : Bool) (st : Style) (f : Nat) (r2 acc : Str) (h : unicodeHex 4 r2 = none) :
    quoted lit (f + 1) ('\\' :: 'u' :: r2) st.inS st.inD acc = none := by
  cases st <;> simp [quoted, Style.inS, Style.inD, h]

theorem quoted_U_none (lit : Bool) (st : Style) (f : Nat) (r2 acc : Str) (h : unicodeHex 8 r2 = none) :
    quoted lit (f + 1) ('\\' :: 'U' :: r2) st.inS st.inD acc = none := by
  cases st <;> simp [quoted, Style.inS, Style.inD, h]

theorem quoted_oct (lit : Bool) (st : Style) (c2 : Char) (hc : c2 = '0' ∨ c2 = '1' ∨ c2 = '2' ∨ c2 = '3')
    (f : Nat) (r2 r3 acc : Str) (v : Char) (h : unicodeOct c2 r2 = some (v, r3)) :
    quoted lit (f + 1) ('\\' :: c2 :: r2) st.inS st.inD acc = quoted lit f r3 st.inS st.inD (v :: acc) := by
  rcases hc with hc | hc | hc | hc <;> subst hc <;> cases st <;>
    simp [quoted, Style.inS, Style.inD, h]

/-! ## helper lemmas: one step of `quoted` per spelling -/

theorem step_x (lit : Bool) (st : Style) (n : Nat) (hn : n < 256) (f : Nat) (rest acc : Str) :
    quoted lit (f + 1) (('\\' :: 'x' :: hexN 2 n) ++ rest) st.inS st.inD acc =
      quoted lit f rest st.inS st.inD (Char.ofNat n :: acc) := by
  apply quoted_x lit st f (hexN 2 n ++ rest) rest acc
  rw [unicodeHex_hexN 2 n rest (by omega) hn, charOfNat_valid n (isValidChar_of_lt n hn)]
  rfl

theorem step_X (lit : Bool) (st : Style) (n : Nat) (hn : n < 256) (f : Nat) (rest acc : Str) :
    quoted lit (f + 1) (('\\' :: 'X' :: hexNUpper 2 n) ++ rest) st.inS st.inD acc =
      quoted lit f rest st.inS st.inD (Char.ofNat n :: acc) := by
  apply quoted_X lit st f (hexNUpper 2 n ++ rest) rest acc
  rw [unicodeHex_hexNUpper 2 n rest (by omega) hn, charOfNat_valid n (isValidChar_of_lt n hn)]
  rfl

theorem step_u (lit : Bool) (st : Style) (n : Nat) (hn : n < 65536) (hv : n.isValidChar) (f : Nat)
    (rest acc : Str) :
    quoted lit (f + 1) (('\\' :: 'u' :: hexN 4 n) ++ rest) st.inS st.inD acc =
      quoted lit f rest st.inS st.inD (Char.ofNat n :: acc) := by
  apply quoted_u lit st f (hexN 4 n ++ rest) rest acc
  rw [unicodeHex_hexN 4 n rest (by omega) hn, charOfNat_valid n hv]
  rfl

theorem step_U (lit : Bool) (st : Style) (n : Nat) (hn : n < 4294967296) (hv : n.isValidChar) (f : Nat)
    (rest acc : Str) :
    quoted lit (f + 1) (('\\' :: 'U' :: hexN 8 n) ++ rest) st.inS st.inD acc =
      quoted lit f rest st.inS st.inD (Char.ofNat n :: acc) := by
  apply quoted_U lit st f (hexN 8 n ++ rest) rest acc
  rw [unicodeHex_hexN 8 n rest (by omega) hn, charOfNat_valid n hv]
  rfl

theorem step_oct (lit : Bool) (st : Style) (n : Nat) (hn : n < 256) (f : Nat) (rest acc : Str) :
    quoted lit (f + 1) (('\\' :: oct3 n) ++ rest) st.inS st.inD acc =
      quoted lit f rest st.inS st.inD (Char.ofNat n :: acc) := by
  apply quoted_oct lit st _ (octLead (n / 64 % 8) (by omega)) f
    (Char.ofNat (48 + n / 8 % 8) :: Char.ofNat (48 + n % 8) :: rest) rest acc
  rw [unicodeOct_oct3 n rest hn, charOfNat_valid n (isValidChar_of_lt n hn)]
  rfl

theorem spell_step (lit : Bool) (st : Style) (sp : Spelling) (c : Char) (s : Str)
    (h : spell st sp c = some s) (f : Nat) (rest acc : Str) :
    quoted lit (f + 1) (s ++ rest) st.inS st.inD acc = quoted lit f rest st.inS st.inD (c :: acc) := by
  cases sp with
  | verbatim =>
    simp only [spell] at h
    split at h
    · cases h
    · rename_i hc
      cases h
      simp only [Bool.or_eq_true, beq_iff_eq, not_or] at hc
      obtain ⟨⟨⟨⟨h1, h2⟩, h3⟩, _⟩, _⟩ := hc
      exact quoted_verbatim lit st c h1 h2 h3 f rest acc
  | simple =>
    simp only [spell] at h
    cases he : simpleEscape st c with
    | none => simp [he] at h
    | some e =>
      simp [he] at h
      subst h
      exact quoted_simple lit st c e he f rest acc
  | hexx =>
    simp only [spell] at h
    split at h
    · rename_i hc
      cases h
      have := step_x lit st c.toNat hc f rest acc
      rwa [Char.ofNat_toNat] at this
    · cases h
  | hexX =>
    simp only [spell] at h
    split at h
    · rename_i hc
      cases h
      have := step_X lit st c.toNat hc f rest acc
      rwa [Char.ofNat_toNat] at this
    · cases h
  | oct =>
    simp only [spell] at h
    split at h
    · rename_i hc
      cases h
      have := step_oct lit st c.toNat hc f rest acc
      rwa [Char.ofNat_toNat] at this
    · cases h
  | u4 =>
    simp only [spell] at h
    split at h
    · rename_i hc
      cases h
      have := step_u lit st c.toNat hc (char_isValid c) f rest acc
      rwa [Char.ofNat_toNat] at this
    · cases h
  | u8 =>
    simp only [spell] at h
    cases h
    have := step_U lit st c.toNat (char_toNat_lt c) (char_isValid c) f rest acc
    rwa [Char.ofNat_toNat] at this

theorem spell_length (st : Style) (sp : Spelling) (c : Char) (s : Str)
    (h : spell st sp c = some s) : 1 ≤ s.length := by
  cases sp <;> simp only [spell] at h
  case simple =>
    cases he : simpleEscape st c with
    | none => simp [he] at h
    | some e => simp [he] at h; subst h; simp
  case u8 => cases h; simp
  all_goals
    split at h
    all_goals first | (cases h; done) | (cases h; simp)

theorem spellAll_length (st : Style) : ∀ (cs : List (Spelling × Char)) (body : Str),
    spellAll st cs = some body → cs.length ≤ body.length := by
  intro cs
  induction cs with
  | nil => intro body _; simp
  | cons p cs ih =>
    obtain ⟨sp, c⟩ := p
    intro body h
    simp only [spellAll] at h
    cases h1 : spell st sp c with
    | none => simp [h1] at h
    | some a =>
      cases h2 : spellAll st cs with
      | none => simp [h1, h2] at h
      | some b =>
        simp [h1, h2] at h
        subst h
        have := spell_length st sp c a h1
        have := ih b h2
        simp
        omega

theorem spellAll_run (lit : Bool) (st : Style) (rest : Str) : ∀ (cs : List (Spelling × Char)) (body : Str),
    spellAll st cs = some body → ∀ (f : Nat) (acc : Str),
    quoted lit (f + cs.length) (body ++ rest) st.inS st.inD acc =
      quoted lit f rest st.inS st.inD ((cs.map (·.2)).reverse ++ acc) := by
  intro cs
  induction cs with
  | nil =>
    intro body h f acc
    simp only [spellAll] at h
    cases h
    simp
  | cons p cs ih =>
    obtain ⟨sp, c⟩ := p
    intro body h f acc
    simp only [spellAll] at h
    cases h1 : spell st sp c with
    | none => simp [h1] at h
    | some a =>
      cases h2 : spellAll st cs with
      | none => simp [h1, h2] at h
      | some b =>
        simp [h1, h2] at h
        subst h
        rw [List.length_cons, ← Nat.add_assoc, List.append_assoc,
          spell_step lit st sp c a h1, ih b h2]
        simp

/-- every spelled character starts with a character that is not a quote -/
theorem spell_head (st : Style) (sp : Spelling) (c : Char) (s : Str)
    (h : spell st sp c = some s) : ∃ a t, s = a :: t ∧ a ≠ '\'' ∧ a ≠ '"' := by
  cases sp <;> simp only [spell] at h
  case verbatim =>
    split at h
    · cases h
    · rename_i hc
      cases h
      simp only [Bool.or_eq_true, beq_iff_eq, not_or] at hc
      obtain ⟨⟨⟨⟨_, h2⟩, h3⟩, _⟩, _⟩ := hc
      exact ⟨_, _, rfl, h2, h3⟩
  case simple =>
    cases he : simpleEscape st c with
    | none => simp [he] at h
    | some e => simp [he] at h; subst h; exact ⟨_, _, rfl, by decide, by decide⟩
  case u8 => cases h; exact ⟨_, _, rfl, by decide, by decide⟩
  all_goals
    split at h
    all_goals first | (cases h; done) | (cases h; exact ⟨_, _, rfl, by decide, by decide⟩)

theorem spell_head_ne_quote (st : Style) (sp : Spelling) (c : Char) (s : Str)
    (h : spell st sp c = some s) : ∀ a t, s = a :: t → a ≠ st.quote := by
  intro a t hs
  obtain ⟨a', t', rfl, h1, h2⟩ := spell_head st sp c s h
  cases hs
  cases st
  · exact h1
  · exact h2

/-- a spelled body never starts with the delimiter -/
theorem spellAll_head_ne_quote (st : Style) (cs : List (Spelling × Char)) (body : Str)
    (h : spellAll st cs = some body) : ∀ a r, body = a :: r → a ≠ st.quote := by
  intro a r hbody
  cases cs with
  | nil => simp [spellAll] at h; subst h; cases hbody
  | cons p cs =>
    obtain ⟨sp, c⟩ := p
    simp only [spellAll] at h
    cases h1 : spell st sp c with
    | none => simp [h1] at h
    | some s =>
      cases h2 : spellAll st cs with
      | none => simp [h1, h2] at h
      | some b =>
        simp [h1, h2] at h
        subst h
        obtain ⟨a', t', rfl, _⟩ := spell_head st sp c s h1
        simp at hbody
        obtain ⟨rfl, _⟩ := hbody
        exact spell_head_ne_quote st sp c _ h1 a' t' rfl

/-- (the escape `s` starts with a backslash, so the text is not triple-quoted) -/
theorem one_escape (st : Style) (s : Str) (c : Char)
    (hs : ∀ f rest acc, quoted false (f + 1) (('\\' :: s) ++ rest) st.inS st.inD acc =
      quoted false f rest st.inS st.inD (c :: acc)) :
    parseString (st.quote :: '\\' :: s ++ [st.quote]) = some [c] := by
  simp only [List.cons_append]
  rw [parseString_style _ _ (isTriple_second _ _ _ _ (by cases st <;> decide))]
  have hl : ('\\' :: (s ++ [st.quote])).length + 1 = (s.length + 2) + 1 := by simp
  rw [hl]
  have := hs (s.length + 2) [st.quote] []
  simp only [List.cons_append] at this
  rw [this, quoted_close]
  rfl

/-! ## strings -/

/-- ROUND TRIP (partial: one-line quoting styles; verbatim quote characters of the other kind
and escaped quotes of the other kind excluded — see the counterexamples below): every string,
under every choice of spelling per character, decodes to exactly itself. -/
theorem string_roundtrip_partial (st : Style) (cs : List (Spelling × Char)) (body : Str)
    (h : spellAll st cs = some body) :
    parseString (st.quote :: body ++ [st.quote]) = some (cs.map (·.2)) := by
  simp only [List.cons_append]
  rw [parseString_style _ _ (not_triple_of_head _ body (spellAll_head_ne_quote st cs body h))]
  have hle := spellAll_length st cs body h
  have hl : (body ++ [st.quote]).length + 1 = (body.length - cs.length + 2) + cs.length := by
    simp; omega
  rw [hl, spellAll_run false st [st.quote] cs body h, quoted_close]
  simp

/-- each escape form denotes the code point written (instances of the round trip, stated for
the record) -/
theorem escape_x_denotation (st : Style) (n : Nat) (hn : n < 256) :
    parseString (st.quote :: '\\' :: 'x' :: hexN 2 n ++ [st.quote]) = some [Char.ofNat n] := by
  exact one_escape st _ _ (step_x false st n hn)

theorem escape_oct_denotation (st : Style) (n : Nat) (hn : n < 256) :
    parseString (st.quote :: '\\' :: oct3 n ++ [st.quote]) = some [Char.ofNat n] := by
  exact one_escape st _ _ (step_oct false st n hn)

theorem escape_u_denotation (st : Style) (n : Nat) (hn : n < 65536) (hv : n.isValidChar) :
    parseString (st.quote :: '\\' :: 'u' :: hexN 4 n ++ [st.quote]) = some [Char.ofNat n] := by
  exact one_escape st _ _ (step_u false st n hn hv)

theorem escape_U_denotation (st : Style) (n : Nat) (hn : n < 4294967296) (hv : n.isValidChar) :
    parseString (st.quote :: '\\' :: 'U' :: hexN 8 n ++ [st.quote]) = some [Char.ofNat n] := by
  exact one_escape st _ _ (step_U false st n hn hv)

/-- escapes that name no valid code point (surrogates, beyond U+10FFFF) are rejected -/
theorem invalid_codepoint_rejected (st : Style) (n : Nat) (hn : n < 4294967296) (hv : ¬ n.isValidChar) :
    parseString (st.quote :: '\\' :: 'U' :: hexN 8 n ++ [st.quote]) = none ∧
    (n < 65536 → parseString (st.quote :: '\\' :: 'u' :: hexN 4 n ++ [st.quote]) = none) := by
  constructor
  · simp only [List.cons_append]
    rw [parseString_style _ _ (isTriple_second _ _ _ _ (by cases st <;> decide))]
    apply quoted_U_none
    rw [unicodeHex_hexN 8 n _ (by omega) hn, charOfNat_invalid n hv]
    rfl
  · intro hn4
    simp only [List.cons_append]
    rw [parseString_style _ _ (isTriple_second _ _ _ _ (by cases st <;> decide))]
    apply quoted_u_none
    rw [unicodeHex_hexN 4 n _ (by omega) hn4, charOfNat_invalid n hv]
    rfl

/- ORIGINAL STATEMENT — FALSE for the model (to be replayed on the implementation): the hypothesis excludes
quote characters from the body but not a body whose last character is an unpaired backslash.
Counterexample (`#eval parseString "r'\\'".toList` = `some ['\'']`, not `some ['\\']`):
`q = '\''`, `body = ['\\']`; see `raw_no_escape_processing_partial_false` below.

/-- raw literals perform no escape processing (partial: bodies without quote characters; a
backslash directly before a quote is the known finding D5b) -/
theorem raw_no_escape_processing_partial (q : Char) (hq : q = '\'' ∨ q = '"') (body : Str)
    (hb : ∀ c ∈ body, c ≠ '\'' ∧ c ≠ '"') :
    parseString ('r' :: q :: body ++ [q]) = some body ∧
    parseString ('R' :: q :: body ++ [q]) = some body
-/

/-! ### raw strings: exact characterisation for quote-free bodies -/

/-- the raw-string scanner pairs every backslash with the character after it; `true` when the
last character of the body is an unpaired backslash (which then pairs with the closing quote) -/
def rawDangling : Str → Bool
  | [] => false
  | c :: r =>
    if c == '\\' then
      match r with
      | [] => true
      | _ :: r2 => rawDangling r2
    else rawDangling r

theorem raw_run (st : Style) : ∀ (n : Nat) (body : Str), body.length ≤ n →
    (∀ c ∈ body, c ≠ '\'' ∧ c ≠ '"') → ∀ (f : Nat) (acc : Str), body.length + 2 ≤ f →
    raw f (body ++ [st.quote]) st.inS st.inD acc =
      some (acc.reverse ++ (if rawDangling body then body.dropLast ++ [st.quote] else body)) := by
  intro n
  induction n with
  | zero =>
    intro body hn _ f acc hf
    have : body = [] := List.eq_nil_of_length_eq_zero (by omega)
    subst this
    obtain ⟨f, rfl⟩ : ∃ g, f = g + 2 := ⟨f - 2, by simp at hf; omega⟩
    cases st <;> simp [raw, rawDangling, Style.inS, Style.inD, Style.quote]
  | succ n ih =>
    intro body hn hb f acc hf
    match body, hn, hb, hf with
    | [], _, _, hf =>
      obtain ⟨f, rfl⟩ : ∃ g, f = g + 2 := ⟨f - 2, by simp at hf; omega⟩
      cases st <;> simp [raw, rawDangling, Style.inS, Style.inD, Style.quote]
    | [c], _, hb, hf =>
      obtain ⟨f, rfl⟩ : ∃ g, f = g + 3 := ⟨f - 3, by simp at hf; omega⟩
      have hc := hb c (by simp)
      by_cases h : c = '\\'
      · subst h
        cases st <;> simp [raw, rawDangling, Style.inS, Style.inD, Style.quote]
      · cases st <;> simp [raw, rawDangling, Style.inS, Style.inD, Style.quote, h, hc.1, hc.2]
    | c :: c2 :: r2, hn, hb, hf =>
      obtain ⟨f, rfl⟩ : ∃ g, f = g + 1 := ⟨f - 1, by simp at hf; omega⟩
      have hc := hb c (by simp)
      have hc2 := hb c2 (by simp)
      by_cases h : c = '\\'
      · subst h
        have := ih r2 (by simp at hn; omega) (fun x hx => hb x (by simp [hx])) f
          (c2 :: '\\' :: acc) (by simp at hf; omega)
        cases st <;>
          simp_all [raw, rawDangling, Style.inS, Style.inD, Style.quote] <;>
          (cases r2 <;> simp [rawDangling] <;> split <;> simp)
      · have := ih (c2 :: r2) (by simp at hn ⊢; omega) (fun x hx => hb x (by simp [hx])) f
          (c :: acc) (by simp at hf ⊢; omega)
        cases st <;>
          simp_all [raw, rawDangling, Style.inS, Style.inD, Style.quote] <;>
          (split <;> simp)

theorem raw_open (st : Style) (f : Nat) (rest : Str) :
    raw (f + 1) (st.quote :: rest) false false [] = raw f rest st.inS st.inD [] := by
  cases st <;> simp [raw, Style.inS, Style.inD, Style.quote]

/-- a raw text that is not triple-quoted goes through the raw quote-toggling state machine
(the hypothesis `hnt` is new with the D5c repair) -/
theorem parseString_raw_style (m : Char) (hm : m = 'r' ∨ m = 'R') (st : Style) (rest : Str)
    (hnt : isTriple st.quote (st.quote :: rest) = false) :
    parseString (m :: st.quote :: rest) =
      raw (rest.length + 1 + 1) (st.quote :: rest) false false [] := by
  cases st
  · simp only [Style.quote] at hnt
    rcases hm with rfl | rfl <;>
      simp [parseString, Style.quote, hnt, isTriple_first '"' '\'' rest (by decide)]
  · simp only [Style.quote] at hnt
    rcases hm with rfl | rfl <;>
      simp [parseString, Style.quote, hnt, isTriple_first '\'' '"' rest (by decide)]

/-- (a quote-free body never starts with the delimiter, so the text is not triple-quoted: no new
hypothesis is needed) -/
theorem parseString_raw (m : Char) (hm : m = 'r' ∨ m = 'R') (st : Style) (body : Str)
    (hb : ∀ c ∈ body, c ≠ '\'' ∧ c ≠ '"') :
    parseString (m :: st.quote :: body ++ [st.quote]) =
      some (if rawDangling body then body.dropLast ++ [st.quote] else body) := by
  simp only [List.cons_append]
  have hnt : isTriple st.quote (st.quote :: (body ++ [st.quote])) = false := by
    apply not_triple_of_head
    intro a r hbody
    have := hb a (by simp [hbody])
    cases st
    · exact this.1
    · exact this.2
  rw [parseString_raw_style m hm st _ hnt, raw_open,
    raw_run st body.length body (Nat.le_refl _) hb _ _ (by simp)]
  simp

theorem quote_style (q : Char) (hq : q = '\'' ∨ q = '"') : ∃ st : Style, q = st.quote := by
  rcases hq with rfl | rfl
  · exact ⟨.single, rfl⟩
  · exact ⟨.double, rfl⟩

/-- raw literals perform no escape processing (partial: bodies without quote characters whose
last character is not an unpaired backslash — `rawDangling body = false`) -/
theorem raw_no_escape_processing_partial2 (q : Char) (hq : q = '\'' ∨ q = '"') (body : Str)
    (hb : ∀ c ∈ body, c ≠ '\'' ∧ c ≠ '"') (hd : rawDangling body = false) :
    parseString ('r' :: q :: body ++ [q]) = some body ∧
    parseString ('R' :: q :: body ++ [q]) = some body := by
  obtain ⟨st, rfl⟩ := quote_style q hq
  rw [parseString_raw 'r' (Or.inl rfl) st body hb, parseString_raw 'R' (Or.inr rfl) st body hb]
  simp [hd]

/-- D5b, in general: a quote-free raw body ending in an unpaired backslash loses that backslash
and gains the closing quote -/
theorem raw_dangling_backslash (q : Char) (hq : q = '\'' ∨ q = '"') (body : Str)
    (hb : ∀ c ∈ body, c ≠ '\'' ∧ c ≠ '"') (hd : rawDangling body = true) :
    parseString ('r' :: q :: body ++ [q]) = some (body.dropLast ++ [q]) ∧
    parseString ('R' :: q :: body ++ [q]) = some (body.dropLast ++ [q]) := by
  obtain ⟨st, rfl⟩ := quote_style q hq
  rw [parseString_raw 'r' (Or.inl rfl) st body hb, parseString_raw 'R' (Or.inr rfl) st body hb]
  simp [hd]

/-- in particular bodies without any backslash are never dangling -/
theorem rawDangling_no_backslash (body : Str) (h : ∀ c ∈ body, c ≠ '\\') :
    rawDangling body = false := by
  induction body with
  | nil => rfl
  | cons c r ih =>
    have hc := h c (by simp)
    have ih' := ih (fun x hx => h x (by simp [hx]))
    unfold rawDangling
    simp [hc, ih']

/-- the original `raw_no_escape_processing_partial` is refuted by the literal `r'\'` (one
backslash; as a Lean string `"r'\\'"`), which decodes to a single quote character -/
theorem raw_no_escape_processing_partial_false : ¬ (∀ (q : Char) (_ : q = '\'' ∨ q = '"') (body : Str)
    (_ : ∀ c ∈ body, c ≠ '\'' ∧ c ≠ '"'),
    parseString ('r' :: q :: body ++ [q]) = some body ∧
    parseString ('R' :: q :: body ++ [q]) = some body) := by
  intro h
  have := (h '\'' (Or.inl rfl) ['\\'] (by decide)).1
  revert this
  decide

/-! ## the recorded defects, as theorems about the model (replayed on the implementation) -/

/-- D5a: an escaped quote of the other kind keeps its backslash -/
theorem other_quote_escape_counterexample :
    parseString "'a\\\"b'".toList = some "a\\\"b".toList ∧
    parseString "\"a\\'b\"".toList = some "a\\'b".toList := by
  decide

/-- D5b: a raw literal ending in a backslash loses it and gains the quote -/
theorem raw_backslash_quote_counterexample :
    parseString "r\"abc\\\"".toList = some "abc\"".toList := by
  decide

/-! ## triple-quoted literals (delimited once; quotes inside the body are literal — the D5c repair) -/

/-- the spelling of one character inside a triple-quoted literal: as in a one-line literal,
and additionally both quote characters and line breaks may be written verbatim -/
def spellT (st : Style) (sp : Spelling) (c : Char) : Option Str :=
  match sp with
  | .verbatim => if c == '\\' then none else some [c]
  | sp => spell st sp c

def spellAllT (st : Style) : List (Spelling × Char) → Option Str
  | [] => some []
  | (sp, c) :: rest =>
    match spellT st sp c, spellAllT st rest with
    | some a, some b => some (a ++ b)
    | _, _ => none

def Style.triple (st : Style) : Str := [st.quote, st.quote, st.quote]

/-- inside a triple-quoted body every character other than a backslash is pushed literally -/
theorem quoted_lit_char (st : Style) (c : Char) (h1 : c ≠ '\\') (f : Nat) (rest acc : Str) :
    quoted true (f + 1) (c :: rest) st.inS st.inD acc =
      quoted true f rest st.inS st.inD (c :: acc) := by
  cases st <;> simp [quoted, Style.inS, Style.inD, h1]

/-- the end of a triple-quoted body: no closing quote is expected -/
theorem quoted_lit_end (f : Nat) (inS inD : Bool) (acc : Str) :
    quoted true (f + 1) [] inS inD acc = some acc.reverse := by
  simp [quoted]

theorem spellT_step (st : Style) (sp : Spelling) (c : Char) (s : Str)
    (h : spellT st sp c = some s) (f : Nat) (rest acc : Str) :
    quoted true (f + 1) (s ++ rest) st.inS st.inD acc =
      quoted true f rest st.inS st.inD (c :: acc) := by
  cases sp with
  | verbatim =>
    simp only [spellT] at h
    split at h
    · cases h
    · rename_i hc
      cases h
      simp only [beq_iff_eq] at hc
      exact quoted_lit_char st c hc f rest acc
  | simple => exact spell_step true st .simple c s h f rest acc
  | hexx => exact spell_step true st .hexx c s h f rest acc
  | hexX => exact spell_step true st .hexX c s h f rest acc
  | oct => exact spell_step true st .oct c s h f rest acc
  | u4 => exact spell_step true st .u4 c s h f rest acc
  | u8 => exact spell_step true st .u8 c s h f rest acc

theorem spellT_length (st : Style) (sp : Spelling) (c : Char) (s : Str)
    (h : spellT st sp c = some s) : 1 ≤ s.length := by
  cases sp with
  | verbatim =>
    simp only [spellT] at h
    split at h
    · cases h
    · cases h; simp
  | simple => exact spell_length st .simple c s h
  | hexx => exact spell_length st .hexx c s h
  | hexX => exact spell_length st .hexX c s h
  | oct => exact spell_length st .oct c s h
  | u4 => exact spell_length st .u4 c s h
  | u8 => exact spell_length st .u8 c s h

theorem spellAllT_cons (st : Style) (sp : Spelling) (c : Char) (cs : List (Spelling × Char))
    (body : Str) (h : spellAllT st ((sp, c) :: cs) = some body) :
    ∃ a b, spellT st sp c = some a ∧ spellAllT st cs = some b ∧ body = a ++ b := by
  simp only [spellAllT] at h
  cases h1 : spellT st sp c with
  | none => simp [h1] at h
  | some a =>
    cases h2 : spellAllT st cs with
    | none => simp [h1, h2] at h
    | some b =>
      simp [h1, h2] at h
      exact ⟨a, b, rfl, rfl, h.symm⟩

theorem spellAllT_length (st : Style) : ∀ (cs : List (Spelling × Char)) (body : Str),
    spellAllT st cs = some body → cs.length ≤ body.length := by
  intro cs
  induction cs with
  | nil => intro body _; simp
  | cons p cs ih =>
    obtain ⟨sp, c⟩ := p
    intro body h
    obtain ⟨a, b, h1, h2, rfl⟩ := spellAllT_cons st sp c cs body h
    have := spellT_length st sp c a h1
    have := ih b h2
    simp
    omega

theorem spellAllT_run (st : Style) (rest : Str) : ∀ (cs : List (Spelling × Char)) (body : Str),
    spellAllT st cs = some body → ∀ (f : Nat) (acc : Str),
    quoted true (f + cs.length) (body ++ rest) st.inS st.inD acc =
      quoted true f rest st.inS st.inD ((cs.map (·.2)).reverse ++ acc) := by
  intro cs
  induction cs with
  | nil =>
    intro body h f acc
    simp only [spellAllT] at h
    cases h
    simp
  | cons p cs ih =>
    obtain ⟨sp, c⟩ := p
    intro body h f acc
    obtain ⟨a, b, h1, h2, rfl⟩ := spellAllT_cons st sp c cs body h
    rw [List.length_cons, ← Nat.add_assoc, List.append_assoc,
      spellT_step st sp c a h1, ih b h2]
    simp

/-- the body of a spelled triple-quoted literal decodes to the characters written -/
theorem quoted_lit_spelled (st : Style) (cs : List (Spelling × Char)) (body : Str)
    (h : spellAllT st cs = some body) :
    quoted true (body.length + 1) body st.inS st.inD [] = some (cs.map (·.2)) := by
  have hle := spellAllT_length st cs body h
  have hl : body.length + 1 = (body.length - cs.length + 1) + cs.length := by omega
  have := spellAllT_run st [] cs body h (body.length - cs.length + 1) []
  rw [List.append_nil] at this
  rw [hl, this, Nat.add_comm _ 1, Nat.add_comm 1, quoted_lit_end]
  simp

/-- a text delimited by three quotes on either side passes the triple-quote test … -/
theorem isTriple_triple (st : Style) (body : Str) :
    isTriple st.quote (st.quote :: st.quote :: st.quote :: (body ++ st.triple)) = true := by
  have h : (st.quote :: st.quote :: st.quote :: (body ++ st.triple)) =
      (st.quote :: st.quote :: st.quote :: body) ++ st.triple := by simp
  unfold isTriple
  rw [h, List.drop_left' (by simp [Style.triple])]
  simp [Style.triple]

/-- … and stripping the delimiters once leaves the body -/
theorem triple_body (q : Char) (body : Str) :
    ((q :: q :: q :: (body ++ [q, q, q])).drop 3).take
      ((q :: q :: q :: (body ++ [q, q, q])).length - 6) = body := by
  simp

/-- the decoder on a (cooked) triple-quoted text -/
theorem parseString_triple (st : Style) (body : Str) :
    parseString (st.triple ++ body ++ st.triple) =
      quoted true (body.length + 1) body st.inS st.inD [] := by
  have ht := isTriple_triple st body
  cases st
  · simp only [Style.quote, Style.triple] at ht
    simp [parseString, Style.triple, Style.quote, Style.inS, Style.inD, ht]
  · simp only [Style.quote, Style.triple] at ht
    simp [parseString, Style.triple, Style.quote, Style.inS, Style.inD, ht,
      isTriple_first '\'' '"' _ (by decide)]

/-- ROUND TRIP for triple-quoted literals: every string — quote characters of either kind and
line breaks included, written verbatim or under any escape spelling (an escaped quote of the
other kind excluded, D5a) — decodes to exactly itself.  (Whether the lexer hands such a text to the
decoder as one token is the lexer's business: a body containing the closing delimiter is cut
there.) -/
theorem triple_quoted_roundtrip_partial (st : Style) (cs : List (Spelling × Char)) (body : Str)
    (h : spellAllT st cs = some body) :
    parseString (st.triple ++ body ++ st.triple) = some (cs.map (·.2)) := by
  rw [parseString_triple, quoted_lit_spelled st cs body h]

/-- a raw triple-quoted literal denotes its body verbatim — for EVERY body: no escape
processing, no quote toggling -/
theorem raw_triple_verbatim (m : Char) (hm : m = 'r' ∨ m = 'R') (st : Style) (body : Str) :
    parseString (m :: st.triple ++ body ++ st.triple) = some body := by
  have ht := isTriple_triple st body
  cases st
  · simp only [Style.quote, Style.triple] at ht
    rcases hm with rfl | rfl <;>
      simp [parseString, Style.triple, Style.quote, ht]
  · simp only [Style.quote, Style.triple] at ht
    rcases hm with rfl | rfl <;>
      simp [parseString, Style.triple, Style.quote, ht, isTriple_first '\'' '"' _ (by decide)]

/-- the former D5c witnesses now denote what was written -/
theorem triple_quote_inner_quotes :
    parseString "'''a'b'''".toList = some "a'b".toList ∧
    parseString "\"\"\"a\"\"b\"\"\"".toList = some "a\"\"b".toList ∧
    parseString "\"\"\"\"a\"\"\"".toList = some "\"a".toList := by
  decide

/-! ## bytes -/

inductive BSpelling where
  | verbatim   -- an ASCII character other than backslash, quotes and line breaks
  | simple     -- \a \b \f \n \r \t \v \\ \? \` \' \"
  | hexx | hexX | oct
deriving Repr, DecidableEq

def simpleEscapeByte (b : UInt8) : Option Char :=
  if b == 7 then some 'a' else if b == 8 then some 'b' else if b == 12 then some 'f'
  else if b == 10 then some 'n' else if b == 13 then some 'r' else if b == 9 then some 't'
  else if b == 11 then some 'v' else if b == 92 then some '\\' else if b == 63 then some '?'
  else if b == 96 then some '`' else if b == 39 then some '\'' else if b == 34 then some '"'
  else none

def spellByte (sp : BSpelling) (b : UInt8) : Option Str :=
  match sp with
  | .verbatim =>
    if b.toNat < 128 && b != 92 && b != 39 && b != 34 && b != 10 && b != 13 then some [Char.ofNat b.toNat]
    else none
  | .simple => (simpleEscapeByte b).map (fun e => ['\\', e])
  | .hexx => some ('\\' :: 'x' :: hexN 2 b.toNat)
  | .hexX => some ('\\' :: 'X' :: hexNUpper 2 b.toNat)
  | .oct => some ('\\' :: oct3 b.toNat)

def spellBytes : List (BSpelling × UInt8) → Option Str
  | [] => some []
  | (sp, b) :: rest =>
    match spellByte sp b, spellBytes rest with
    | some a, some r => some (a ++ r)
    | _, _ => none

/-- the delimiters of a bytes literal: single or triple, either quote -/
def delims : List Str := [['\''], ['"'], ['\'', '\'', '\''], ['"', '"', '"']]

/-! ### helper lemmas: `bytesBody` steps -/

theorem ascii_verbatim : ∀ n, n < 128 → n ≠ 92 →
    (Char.ofNat n == '\\') = false ∧ utf8Encode (Char.ofNat n) = [n.toUInt8] ∧
    (n ≠ 39 → Char.ofNat n ≠ '\'') ∧ (n ≠ 34 → Char.ofNat n ≠ '"') := by decide

theorem bytes_plain (c : Char) (b : UInt8) (h1 : (c == '\\') = false) (h2 : utf8Encode c = [b])
    (f : Nat) (rest : Str) (acc : List UInt8) :
    bytesBody (f + 1) (c :: rest) acc = bytesBody f rest (b :: acc) := by
  simp [bytesBody, h1, h2]

theorem bytes_verbatim (b : UInt8) (h1 : b.toNat < 128) (h2 : b ≠ 92) (f : Nat) (rest : Str)
    (acc : List UInt8) :
    bytesBody (f + 1) (Char.ofNat b.toNat :: rest) acc = bytesBody f rest (b :: acc) := by
  have hne : b.toNat ≠ 92 := by
    intro h; apply h2; apply UInt8.toNat_inj.mp; simpa using h
  obtain ⟨ha, hb, _⟩ := ascii_verbatim b.toNat h1 hne
  rw [show b.toNat.toUInt8 = b from UInt8.ofNat_toNat] at hb
  exact bytes_plain _ b ha hb f rest acc

def byteEscTable : List (UInt8 × Char) :=
  [(7, 'a'), (8, 'b'), (12, 'f'), (10, 'n'), (13, 'r'), (9, 't'), (11, 'v'), (92, '\\'),
   (63, '?'), (96, '`'), (39, '\''), (34, '"')]

set_option maxRecDepth 8192 in
theorem simpleEscapeByte_table_aux : ∀ n, n < 256 →
    ∀ e ∈ (simpleEscapeByte (UInt8.ofNat n)).toList, (UInt8.ofNat n, e) ∈ byteEscTable := by
  decide +kernel

theorem simpleEscapeByte_table (b : UInt8) (e : Char) (h : simpleEscapeByte b = some e) :
    (b, e) ∈ byteEscTable := by
  have := simpleEscapeByte_table_aux b.toNat b.toNat_lt e
  rw [UInt8.ofNat_toNat] at this
  exact this (by simp [h])

theorem bytes_simple (b : UInt8) (e : Char) (h : simpleEscapeByte b = some e) (f : Nat)
    (rest : Str) (acc : List UInt8) :
    bytesBody (f + 1) ('\\' :: e :: rest) acc = bytesBody f rest (b :: acc) := by
  have := simpleEscapeByte_table b e h
  simp only [byteEscTable, List.mem_cons, Prod.mk.injEq, List.not_mem_nil, or_false] at this
  rcases this with ⟨rfl, rfl⟩ | ⟨rfl, rfl⟩ | ⟨rfl, rfl⟩ | ⟨rfl, rfl⟩ | ⟨rfl, rfl⟩ | ⟨rfl, rfl⟩ |
    ⟨rfl, rfl⟩ | ⟨rfl, rfl⟩ | ⟨rfl, rfl⟩ | ⟨rfl, rfl⟩ | ⟨rfl, rfl⟩ | ⟨rfl, rfl⟩ <;>
  simp [bytesBody]

theorem bytes_x (n : Nat) (hn : n < 256) (f : Nat) (rest : Str) (acc : List UInt8) :
    bytesBody (f + 1) (('\\' :: 'x' :: hexN 2 n) ++ rest) acc =
      bytesBody f rest (n.toUInt8 :: acc) := by
  have := parseRadix_hexN 2 n (by omega) hn
  simp only [hexN, List.nil_append, List.cons_append] at this ⊢
  simp [bytesBody, this]

theorem bytes_X (n : Nat) (hn : n < 256) (f : Nat) (rest : Str) (acc : List UInt8) :
    bytesBody (f + 1) (('\\' :: 'X' :: hexNUpper 2 n) ++ rest) acc =
      bytesBody f rest (n.toUInt8 :: acc) := by
  have := parseRadix_hexNUpper 2 n (by omega) hn
  simp only [hexNUpper, List.nil_append, List.cons_append] at this ⊢
  simp [bytesBody, this]

theorem bytes_oct (n : Nat) (hn : n < 256) (f : Nat) (rest : Str) (acc : List UInt8) :
    bytesBody (f + 1) (('\\' :: oct3 n) ++ rest) acc =
      bytesBody f rest (n.toUInt8 :: acc) := by
  have := parseRadix_oct3 n (by omega)
  simp only [oct3, List.cons_append, List.nil_append] at this ⊢
  rcases octLead (n / 64 % 8) (by omega) with hc | hc | hc | hc <;> rw [hc] at this ⊢ <;>
    simp [bytesBody, this] <;> omega

theorem spellByte_step (sp : BSpelling) (b : UInt8) (s : Str) (h : spellByte sp b = some s)
    (f : Nat) (rest : Str) (acc : List UInt8) :
    bytesBody (f + 1) (s ++ rest) acc = bytesBody f rest (b :: acc) := by
  have hb : b.toNat.toUInt8 = b := UInt8.ofNat_toNat
  cases sp with
  | verbatim =>
    simp only [spellByte] at h
    split at h
    · rename_i hc
      cases h
      simp only [Bool.and_eq_true, decide_eq_true_eq, bne_iff_ne, ne_eq] at hc
      exact bytes_verbatim b hc.1.1.1.1.1 hc.1.1.1.1.2 f rest acc
    · cases h
  | simple =>
    simp only [spellByte] at h
    cases he : simpleEscapeByte b with
    | none => simp [he] at h
    | some e =>
      simp [he] at h
      subst h
      exact bytes_simple b e he f rest acc
  | hexx =>
    simp only [spellByte] at h
    cases h
    have := bytes_x b.toNat b.toNat_lt f rest acc
    rwa [hb] at this
  | hexX =>
    simp only [spellByte] at h
    cases h
    have := bytes_X b.toNat b.toNat_lt f rest acc
    rwa [hb] at this
  | oct =>
    simp only [spellByte] at h
    cases h
    have := bytes_oct b.toNat b.toNat_lt f rest acc
    rwa [hb] at this

/-- every spelled byte starts with a character that is not a quote -/
theorem spellByte_head (sp : BSpelling) (b : UInt8) (s : Str) (h : spellByte sp b = some s) :
    ∃ c t, s = c :: t ∧ c ≠ '\'' ∧ c ≠ '"' := by
  cases sp with
  | verbatim =>
    simp only [spellByte] at h
    split at h
    · rename_i hc
      cases h
      simp only [Bool.and_eq_true, decide_eq_true_eq, bne_iff_ne, ne_eq] at hc
      obtain ⟨⟨⟨⟨⟨h1, h2⟩, h3⟩, h4⟩, _⟩, _⟩ := hc
      have hne : ∀ k : UInt8, b ≠ k → b.toNat ≠ k.toNat := fun k hk hx =>
        hk (UInt8.toNat_inj.mp hx)
      obtain ⟨_, _, ha, hb⟩ := ascii_verbatim b.toNat h1 (hne 92 h2)
      exact ⟨_, _, rfl, ha (hne 39 h3), hb (hne 34 h4)⟩
    · cases h
  | simple =>
    simp only [spellByte] at h
    cases he : simpleEscapeByte b with
    | none => simp [he] at h
    | some e => simp [he] at h; subst h; exact ⟨_, _, rfl, by decide, by decide⟩
  | hexx => simp only [spellByte] at h; cases h; exact ⟨_, _, rfl, by decide, by decide⟩
  | hexX => simp only [spellByte] at h; cases h; exact ⟨_, _, rfl, by decide, by decide⟩
  | oct => simp only [spellByte] at h; cases h; exact ⟨_, _, rfl, by decide, by decide⟩

theorem spellBytes_cons (sp : BSpelling) (b : UInt8) (bs : List (BSpelling × UInt8)) (body : Str)
    (h : spellBytes ((sp, b) :: bs) = some body) :
    ∃ a r, spellByte sp b = some a ∧ spellBytes bs = some r ∧ body = a ++ r := by
  simp only [spellBytes] at h
  cases h1 : spellByte sp b with
  | none => simp [h1] at h
  | some a =>
    cases h2 : spellBytes bs with
    | none => simp [h1, h2] at h
    | some r =>
      simp [h1, h2] at h
      exact ⟨a, r, rfl, rfl, h.symm⟩

theorem spellBytes_head (bs : List (BSpelling × UInt8)) (body : Str)
    (h : spellBytes bs = some body) : ∀ c r, body = c :: r → c ≠ '\'' ∧ c ≠ '"' := by
  intro c r hbody
  cases bs with
  | nil => simp [spellBytes] at h; subst h; cases hbody
  | cons p bs =>
    obtain ⟨sp, b⟩ := p
    obtain ⟨a, r', h1, _, rfl⟩ := spellBytes_cons sp b bs body h
    obtain ⟨c', t, rfl, hc⟩ := spellByte_head sp b a h1
    simp at hbody
    rw [← hbody.1]
    exact hc

theorem spellBytes_length : ∀ (bs : List (BSpelling × UInt8)) (body : Str),
    spellBytes bs = some body → bs.length ≤ body.length := by
  intro bs
  induction bs with
  | nil => intro body _; simp
  | cons p bs ih =>
    obtain ⟨sp, b⟩ := p
    intro body h
    obtain ⟨a, r, h1, h2, rfl⟩ := spellBytes_cons sp b bs body h
    obtain ⟨c', t, rfl, _⟩ := spellByte_head sp b a h1
    have := ih r h2
    simp
    omega

theorem spellBytes_run (rest : Str) : ∀ (bs : List (BSpelling × UInt8)) (body : Str),
    spellBytes bs = some body → ∀ (f : Nat) (acc : List UInt8),
    bytesBody (f + bs.length) (body ++ rest) acc =
      bytesBody f rest ((bs.map (·.2)).reverse ++ acc) := by
  intro bs
  induction bs with
  | nil =>
    intro body h f acc
    simp only [spellBytes] at h
    cases h
    simp
  | cons p bs ih =>
    obtain ⟨sp, b⟩ := p
    intro body h f acc
    obtain ⟨a, r, h1, h2, rfl⟩ := spellBytes_cons sp b bs body h
    rw [List.length_cons, ← Nat.add_assoc, List.append_assoc,
      spellByte_step sp b a h1, ih r h2]
    simp

theorem bytesBody_spelled (bs : List (BSpelling × UInt8)) (body : Str)
    (h : spellBytes bs = some body) :
    bytesBody (body.length + 1) body [] = some (bs.map (·.2)) := by
  have hle := spellBytes_length bs body h
  have hl : body.length + 1 = (body.length - bs.length + 1) + bs.length := by omega
  have := spellBytes_run [] bs body h (body.length - bs.length + 1) []
  rw [List.append_nil] at this
  rw [hl, this]
  simp [bytesBody]

/-! ### helper lemmas: `parseBytes` delimiters -/

/-- the delimiter-stripping part of `visit_Bytes` -/
def stripQuotes (text : Str) : Str :=
  let q : Nat :=
    if text.length ≥ 6 && (text.take 3 == ['"', '"', '"'] || text.take 3 == ['\'', '\'', '\''])
    then 3 else 1
  (text.drop q).take (text.length - 2 * q)

theorem parseBytes_cooked (c : Char) (r : Str) (h1 : c ≠ 'r') (h2 : c ≠ 'R') :
    parseBytes ('b' :: c :: r) =
      bytesBody ((stripQuotes (c :: r)).length + 1) (stripQuotes (c :: r)) [] := by
  simp [parseBytes, stripQuotes, h1, h2]

theorem parseBytes_raw (t : Str) :
    parseBytes ('b' :: 'r' :: t) = some (strToBytes (stripQuotes t)) := by
  simp [parseBytes, stripQuotes]

theorem stripQuotes_single (st : Style) (body : Str)
    (hh : ∀ c r, body = c :: r → c ≠ '\'' ∧ c ≠ '"') :
    stripQuotes (st.quote :: (body ++ [st.quote])) = body := by
  cases body with
  | nil => cases st <;> simp [stripQuotes, Style.quote]
  | cons c r =>
    obtain ⟨h1, h2⟩ := hh c r rfl
    cases st <;> simp [stripQuotes, Style.quote, h1, h2]

theorem stripQuotes_triple (st : Style) (body : Str) :
    stripQuotes (st.quote :: st.quote :: st.quote :: (body ++ [st.quote, st.quote, st.quote])) =
      body := by
  cases st <;> simp [stripQuotes, Style.quote]

/-- ROUND TRIP for bytes literals, in all four quoting styles: every byte sequence, under every
choice of spelling per byte, decodes to exactly itself. -/
theorem bytes_roundtrip (d : Str) (hd : d ∈ delims) (bs : List (BSpelling × UInt8)) (body : Str)
    (h : spellBytes bs = some body) :
    parseBytes ('b' :: d ++ body ++ d) = some (bs.map (·.2)) := by
  have hh := spellBytes_head bs body h
  have hs1 := stripQuotes_single .single body hh
  have hs2 := stripQuotes_single .double body hh
  have ht1 := stripQuotes_triple .single body
  have ht2 := stripQuotes_triple .double body
  simp only [Style.quote] at hs1 hs2 ht1 ht2
  simp only [delims, List.mem_cons, List.not_mem_nil, or_false] at hd
  rcases hd with rfl | rfl | rfl | rfl <;>
    simp only [List.cons_append, List.nil_append] <;>
    rw [parseBytes_cooked _ _ (by decide) (by decide)]
  · rw [hs1]; exact bytesBody_spelled bs body h
  · rw [hs2]; exact bytesBody_spelled bs body h
  · rw [ht1]; exact bytesBody_spelled bs body h
  · rw [ht2]; exact bytesBody_spelled bs body h

/-- raw bytes literals: the UTF-8 encoding of the body, verbatim -/
theorem raw_bytes_verbatim (d : Str) (hd : d ∈ delims) (body : Str)
    (hb : ∀ c ∈ body, c ≠ '\'' ∧ c ≠ '"') :
    parseBytes ('b' :: 'r' :: d ++ body ++ d) = some (strToBytes body) := by
  have hh : ∀ c r, body = c :: r → c ≠ '\'' ∧ c ≠ '"' := fun c r hcr =>
    hb c (by simp [hcr])
  have hs1 := stripQuotes_single .single body hh
  have hs2 := stripQuotes_single .double body hh
  have ht1 := stripQuotes_triple .single body
  have ht2 := stripQuotes_triple .double body
  simp only [Style.quote] at hs1 hs2 ht1 ht2
  simp only [delims, List.mem_cons, List.not_mem_nil, or_false] at hd
  rcases hd with rfl | rfl | rfl | rfl <;>
    simp only [List.cons_append, List.nil_append] <;>
    rw [parseBytes_raw]
  · rw [hs1]
  · rw [hs2]
  · rw [ht1]
  · rw [ht2]

/-- `\u` / `\U` are not escapes of bytes literals -/
theorem bytes_reject_unicode_escape (rest : Str) (acc : List UInt8) (fuel : Nat) :
    bytesBody (fuel + 1) ('\\' :: 'u' :: rest) acc = none ∧
    bytesBody (fuel + 1) ('\\' :: 'U' :: rest) acc = none := by
  constructor <;> simp [bytesBody]

end Cel.Props.C12
