import CelModel.Refs
import CelModel.Lemmas.Sat
import CelModel.Props.C02
import CelModel.Lemmas.Undecl
/-!
# C19 — reported references cover every name a program can look up

`Expr.vars` / `Expr.funcs` model `antlr/src/references.rs`.
-/
namespace Cel.Props.C19
open Cel

mutual
/-- every `@`-identifier occurs only where an enclosing comprehension binds it as its
accumulator or iteration variable (`bound` = the names bound so far).  The parser only produces
such trees: `@result` occurs only inside the comprehension a macro expands to.  (The loop
condition and the result are evaluated with the accumulator bound — the iteration variable is
bound only once the first element has been reached — the step with both.) -/
def AccuClosed (bound : List String) : Expr → Bool
  | .lit _ => true
  | .ident n => !isInternalName n || bound.contains n
  | .call _ args => AccuClosedList bound args
  | .mcall _ t args => AccuClosed bound t && AccuClosedList bound args
  | .select e _ _ => AccuClosed bound e
  | .list es => AccuClosedList bound es
  | .map es => AccuClosedEntries bound es
  | .struct _ _ vs => AccuClosedList bound vs
  | .comp iv r av i c s res =>
    AccuClosed bound r && AccuClosed bound i && AccuClosed (av :: bound) c
      && AccuClosed (iv :: av :: bound) s && AccuClosed (av :: bound) res
  | .unspecified => true
def AccuClosedList (bound : List String) : List Expr → Bool
  | [] => true
  | e :: es => AccuClosed bound e && AccuClosedList bound es
def AccuClosedEntries (bound : List String) : List (Expr × Expr) → Bool
  | [] => true
  | (k, v) :: es => AccuClosed bound k && AccuClosed bound v && AccuClosedEntries bound es
end

/-- the context defines every name in `bound` (as a variable visible from the current scope) -/
def Defines (ctx : Ctx) (bound : List String) : Prop := ∀ n ∈ bound, (ctx.getVariable n).isSome

/-- names of the operators `resolve` dispatches on without consulting the function registry -/
def isOperatorName (f : String) : Bool :=
  f == condName || (binOpOfName f).isSome || (unOpOfName f).isSome

mutual
/-- operator names are used with their own arity (what the parser produces); then they are
never looked up as functions -/
def OpsWellFormed : Expr → Bool
  | .lit _ => true
  | .ident _ => true
  | .call f args =>
    (if f == condName then args.length == 3
     else if (binOpOfName f).isSome then args.length == 2
     else if (unOpOfName f).isSome then args.length == 1 else true) && OpsWellFormedList args
  | .mcall f t args =>
    (if f == condName then args.length == 3
     else if (binOpOfName f).isSome then args.length == 2
     else if (unOpOfName f).isSome then args.length == 1 else true)
      && OpsWellFormed t && OpsWellFormedList args
  | .select e _ _ => OpsWellFormed e
  | .list es => OpsWellFormedList es
  | .map es => OpsWellFormedEntries es
  | .struct _ _ vs => OpsWellFormedList vs
  | .comp _ r _ i c s res =>
    OpsWellFormed r && OpsWellFormed i && OpsWellFormed c && OpsWellFormed s && OpsWellFormed res
  | .unspecified => true
def OpsWellFormedList : List Expr → Bool
  | [] => true
  | e :: es => OpsWellFormed e && OpsWellFormedList es
def OpsWellFormedEntries : List (Expr × Expr) → Bool
  | [] => true
  | (k, v) :: es => OpsWellFormed k && OpsWellFormed v && OpsWellFormedEntries es
end


/-! ## auxiliary facts -/

theorem band_true {a b : Bool} (h : (a && b) = true) : a = true ∧ b = true := by
  simpa using h

theorem length_evalThunks (ctx : Ctx) (es : List Expr) : (evalThunks ctx es).length = es.length := by
  induction es with
  | nil => rw [evalThunks]; rfl
  | cons e es ih => rw [evalThunks]; simp [ih]

theorem Defines.push {ctx : Ctx} {bound : List String} (hd : Defines ctx bound) (sc : Scope)
    (extra : List String) (h : ∀ n ∈ extra, (Ctx.lookupScope sc n).isSome = true) :
    Defines (ctx.push sc) (extra ++ bound) := by
  intro n hn
  rcases List.mem_append.mp hn with hn | hn
  · exact getVariable_push_of_lookup ctx sc n (h n hn)
  · exact getVariable_push_isSome ctx sc n (hd n hn)

/-- the arity check of `OpsWellFormed` for a call node with `n` arguments -/
def arityOk (f : String) (n : Nat) : Bool :=
  if f == condName then n == 3
  else if (binOpOfName f).isSome then n == 2
  else if (unOpOfName f).isSome then n == 1 else true

/-- an operator name used with its own arity never reaches the function registry -/
theorem not_reaches (f : String) (n : Nat) (hop : isOperatorName f = true)
    (har : arityOk f n = true) : ¬ ReachesFn f n := by
  rintro ⟨h3, h2, h1⟩
  unfold arityOk at har
  unfold isOperatorName at hop
  by_cases hc : (f == condName) = true
  · rw [if_pos hc] at har
    have := h3 (by simpa using har)
    rw [hc] at this; cases this
  · rw [if_neg hc] at har
    by_cases hb : (binOpOfName f).isSome = true
    · rw [if_pos hb] at har
      have := h2 (by simpa using har)
      rw [this] at hb; cases hb
    · rw [if_neg hb] at har
      by_cases hu : (unOpOfName f).isSome = true
      · rw [if_pos hu] at har
        have := h1 (by simpa using har)
        rw [this] at hu; cases hu
      · simp only [Bool.not_eq_true] at hc hb hu
        rw [hc, hb, hu] at hop
        cases hop

/-- the hypotheses under which both directions are proved at once: `P` accepts every error other
than `undeclared`; it accepts `undeclared n` for every reported variable the context lacks and
for every reported non-operator function the context lacks; and either operators are used with
their own arity (flag `wf`) or `P` accepts `undeclared f` for every reported function -/
structure Hyp (ctx : Ctx) (P : ErrC → Prop) (vs fs : List String) (wf : Bool) : Prop where
  good : Good P
  vars : ∀ n ∈ vs, ctx.getVariable n = none → P (.undeclared n)
  funs : ∀ f ∈ fs, ctx.getFunction f = none → isOperatorName f = false → P (.undeclared f)
  wf : wf = true ∨ ∀ f ∈ fs, P (.undeclared f)

theorem Hyp.mono {ctx : Ctx} {P : ErrC → Prop} {vs fs vs' fs' : List String} {wf wf' : Bool}
    (h : Hyp ctx P vs fs wf) (hv : ∀ n, n ∈ vs' → n ∈ vs) (hf : ∀ f, f ∈ fs' → f ∈ fs)
    (hw : wf = true → wf' = true) : Hyp ctx P vs' fs' wf' where
  good := h.good
  vars := fun n hn => h.vars n (hv n hn)
  funs := fun f hf' => h.funs f (hf f hf')
  wf := h.wf.elim (fun x => Or.inl (hw x)) (fun x => Or.inr (fun f hf' => x f (hf f hf')))

theorem Hyp.push {ctx : Ctx} {P : ErrC → Prop} {vs fs : List String} {wf : Bool}
    (h : Hyp ctx P vs fs wf) (sc : Scope) : Hyp (ctx.push sc) P vs fs wf where
  good := h.good
  vars := fun n hn hnone => h.vars n hn (getVariable_push_none ctx sc n hnone)
  funs := fun f hf hnone => h.funs f hf hnone
  wf := h.wf

/-- what `callNode_satP` needs about the node's own name -/
theorem Hyp.call_hund {ctx : Ctx} {P : ErrC → Prop} {vs fs : List String} {wf : Bool} {f : String}
    {n : Nat} (h : Hyp ctx P vs (f :: fs) wf) (har : wf = true → arityOk f n = true) :
    ReachesFn f n → ctx.getFunction f = none → P (.undeclared f) := by
  intro hr hnone
  cases hop : isOperatorName f
  · exact h.funs f (List.mem_cons_self ..) hnone hop
  · rcases h.wf with hw | hall
    · exact absurd hr (not_reaches f n hop (har hw))
    · exact hall f (List.mem_cons_self ..)

/-! ## the evaluator-wide invariant -/

theorem eval_satP : ∀ e, ∀ bound, AccuClosed bound e = true → ∀ ctx, Defines ctx bound →
    ∀ P, Hyp ctx P e.vars e.funcs (OpsWellFormed e) → SatP (eval ctx e) Any P := by
  apply Expr.rec
    (motive_1 := fun e => ∀ bound, AccuClosed bound e = true → ∀ ctx, Defines ctx bound →
      ∀ P, Hyp ctx P e.vars e.funcs (OpsWellFormed e) → SatP (eval ctx e) Any P)
    (motive_2 := fun es => ∀ bound, AccuClosedList bound es = true → ∀ ctx, Defines ctx bound →
      ∀ P, Hyp ctx P (varsList es) (funcsList es) (OpsWellFormedList es) →
        SatP (evalList ctx es) Any P ∧ ∀ t ∈ evalThunks ctx es, SatP t Any P)
    (motive_3 := fun es => ∀ bound, AccuClosedEntries bound es = true → ∀ ctx, Defines ctx bound →
      ∀ P, Hyp ctx P (varsEntries es) (funcsEntries es) (OpsWellFormedEntries es) →
        ∀ acc, SatP (evalEntries ctx es acc) Any P)
    (motive_4 := fun p => ∀ bound, AccuClosed bound p.1 = true → AccuClosed bound p.2 = true →
      ∀ ctx, Defines ctx bound →
      ∀ P, Hyp ctx P (p.1.vars ++ p.2.vars) (p.1.funcs ++ p.2.funcs)
          (OpsWellFormed p.1 && OpsWellFormed p.2) →
        SatP (eval ctx p.1) Any P ∧ SatP (eval ctx p.2) Any P)
  · -- lit
    intro v bound _ ctx _ P _
    rw [eval]
    exact SatP.tick_bind (SatP.pure trivial)
  · -- ident
    intro n bound hc ctx hd P H
    rw [eval]
    apply SatP.tick_bind
    split
    · exact SatP.pure trivial
    · rename_i hnone
      apply SatP.throw
      rw [AccuClosed] at hc
      cases hi : isInternalName n
      · refine H.vars n ?_ hnone
        rw [Expr.vars, hi]; simp
      · rw [hi] at hc
        have hm : n ∈ bound := by simpa using hc
        have := hd n hm
        rw [hnone] at this; cases this
  · -- call
    intro f args ih bound hc ctx hd P H
    rw [AccuClosed] at hc
    rw [Expr.vars, Expr.funcs, OpsWellFormed] at H
    have Ha : Hyp ctx P (varsList args) (funcsList args) (OpsWellFormedList args) :=
      H.mono (fun _ h => h) (fun _ h => List.mem_cons_of_mem _ h) (fun h => (band_true h).2)
    rw [eval]
    apply SatP.tick_bind
    refine callNode_satP H.good ctx f none args _ (ih bound hc ctx hd P Ha).2
      (fun _ h => nomatch h) ?_
    rw [length_evalThunks]
    exact H.call_hund (fun h => (band_true h).1)
  · -- mcall
    intro f t args iht ih bound hc ctx hd P H
    rw [AccuClosed] at hc
    obtain ⟨hct, hca⟩ := band_true hc
    rw [Expr.vars, Expr.funcs, OpsWellFormed] at H
    have Ht : Hyp ctx P t.vars t.funcs (OpsWellFormed t) :=
      H.mono (fun _ h => List.mem_append_left _ h)
        (fun _ h => List.mem_cons_of_mem _ (List.mem_append_left _ h))
        (fun h => (band_true (band_true h).1).2)
    have Ha : Hyp ctx P (varsList args) (funcsList args) (OpsWellFormedList args) :=
      H.mono (fun _ h => List.mem_append_right _ h)
        (fun _ h => List.mem_cons_of_mem _ (List.mem_append_right _ h))
        (fun h => (band_true h).2)
    rw [eval]
    apply SatP.tick_bind
    refine callNode_satP H.good ctx f _ args _ (ih bound hca ctx hd P Ha).2 ?_ ?_
    · intro t' ht'
      cases ht'
      exact iht bound hct ctx hd P Ht
    · rw [length_evalThunks]
      exact H.call_hund (fun h => (band_true (band_true h).1).1)
  · -- select
    intro e field test ih bound hc ctx hd P H
    rw [AccuClosed] at hc
    rw [Expr.vars, Expr.funcs, OpsWellFormed] at H
    rw [eval]
    apply SatP.tick_bind
    apply SatP.bind (ih bound hc ctx hd P H); intro v _
    split
    · exact SatP.pure trivial
    · exact SatP.lift_good H.good (NoUndecl.member ctx v field)
  · -- list
    intro es ih bound hc ctx hd P H
    rw [AccuClosed] at hc
    rw [Expr.vars, Expr.funcs, OpsWellFormed] at H
    rw [eval]
    apply SatP.tick_bind
    apply SatP.bind (ih bound hc ctx hd P H).1; intro vs _
    exact SatP.pure trivial
  · -- map
    intro es ih bound hc ctx hd P H
    rw [AccuClosed] at hc
    rw [Expr.vars, Expr.funcs, OpsWellFormed] at H
    rw [eval]
    apply SatP.tick_bind
    apply SatP.bind (ih bound hc ctx hd P H []); intro m _
    exact SatP.pure trivial
  · -- struct
    intro name fields vals _ bound _ ctx _ P H
    rw [eval]
    apply SatP.tick_bind
    exact SatP.throw_good H.good rfl
  · -- comp
    intro iv range av init cond step result ihr ihi ihc ihs ihres bound hc ctx hd P H
    rw [AccuClosed] at hc
    obtain ⟨hc, hcres⟩ := band_true hc
    obtain ⟨hc, hcs⟩ := band_true hc
    obtain ⟨hc, hcc⟩ := band_true hc
    obtain ⟨hcr, hci⟩ := band_true hc
    rw [Expr.vars, Expr.funcs, OpsWellFormed] at H
    have Hr : Hyp ctx P range.vars range.funcs (OpsWellFormed range) :=
      H.mono (fun _ h => by simp [h]) (fun _ h => by simp [h])
        (fun h => by simp only [Bool.and_eq_true] at h; exact h.1.1.1.1)
    have Hi : Hyp ctx P init.vars init.funcs (OpsWellFormed init) :=
      H.mono (fun _ h => by simp [h]) (fun _ h => by simp [h])
        (fun h => by simp only [Bool.and_eq_true] at h; exact h.1.1.1.2)
    have Hc : Hyp ctx P cond.vars cond.funcs (OpsWellFormed cond) :=
      H.mono (fun _ h => by simp [h]) (fun _ h => by simp [h])
        (fun h => by simp only [Bool.and_eq_true] at h; exact h.1.1.2)
    have Hs : Hyp ctx P step.vars step.funcs (OpsWellFormed step) :=
      H.mono (fun _ h => by simp [h]) (fun _ h => by simp [h])
        (fun h => by simp only [Bool.and_eq_true] at h; exact h.1.2)
    have Hres : Hyp ctx P result.vars result.funcs (OpsWellFormed result) :=
      H.mono (fun _ h => by simp [h]) (fun _ h => by simp [h])
        (fun h => by simp only [Bool.and_eq_true] at h; exact h.2)
    rw [eval]
    apply SatP.tick_bind
    apply SatP.bind (ihi bound hci ctx hd P Hi); intro vinit _
    apply SatP.bind (ihr bound hcr ctx hd P Hr); intro r _
    apply SatP.bind (Q := Any)
    · split
      · exact SatP.pure trivial
      · exact SatP.pure trivial
      · exact SatP.throw_good H.good rfl
    · intro items _
      apply SatP.bind
        (loopG_satP iv av _ _ (fun sc => (Ctx.lookupScope sc av).isSome = true)
          (fun sc n v h => lookup_scopeInsert_isSome sc n av v h) ?_ ?_ items [(av, vinit)] ?_)
      · -- result: the accumulator is bound
        intro sc hsc
        refine ihres (av :: bound) hcres (ctx.push sc) (hd.push sc [av] ?_) P (Hres.push sc)
        intro n hn
        cases List.mem_singleton.mp hn
        exact hsc
      · -- condition: the accumulator is bound
        intro sc hsc
        refine ihc (av :: bound) hcc (ctx.push sc) (hd.push sc [av] ?_) P (Hc.push sc)
        intro n hn
        cases List.mem_singleton.mp hn
        exact hsc
      · -- step: the iteration variable and the accumulator are bound
        intro sc item hsc
        refine ihs (iv :: av :: bound) hcs (ctx.push _) (hd.push _ [iv, av] ?_) P (Hs.push _)
        intro n hn
        rcases List.mem_cons.mp hn with rfl | hn
        · exact lookup_scopeInsert_self sc n item
        · cases List.mem_singleton.mp hn
          exact lookup_scopeInsert_isSome sc iv av item hsc
      · -- the initial scope binds the accumulator
        simp [Ctx.lookupScope]
  · -- unspecified
    intro bound _ ctx _ P _
    rw [eval]
    exact SatP.panic
  · -- []
    intro bound _ ctx _ P _
    refine ⟨?_, ?_⟩
    · rw [evalList]; exact SatP.pure trivial
    · rw [evalThunks]; intro t ht; cases ht
  · -- e :: es
    intro e es ihe ihes bound hc ctx hd P H
    rw [AccuClosedList] at hc
    obtain ⟨hce, hces⟩ := band_true hc
    rw [varsList, funcsList, OpsWellFormedList] at H
    have He : Hyp ctx P e.vars e.funcs (OpsWellFormed e) :=
      H.mono (fun _ h => List.mem_append_left _ h) (fun _ h => List.mem_append_left _ h)
        (fun h => (band_true h).1)
    have Hes : Hyp ctx P (varsList es) (funcsList es) (OpsWellFormedList es) :=
      H.mono (fun _ h => List.mem_append_right _ h) (fun _ h => List.mem_append_right _ h)
        (fun h => (band_true h).2)
    refine ⟨?_, ?_⟩
    · rw [evalList]
      apply SatP.bind (ihe bound hce ctx hd P He); intro v _
      apply SatP.bind (ihes bound hces ctx hd P Hes).1; intro vs _
      exact SatP.pure trivial
    · rw [evalThunks]
      intro t ht
      rcases List.mem_cons.mp ht with rfl | ht
      · exact ihe bound hce ctx hd P He
      · exact (ihes bound hces ctx hd P Hes).2 t ht
  · -- entries []
    intro bound _ ctx _ P _ acc
    rw [evalEntries]
    exact SatP.pure trivial
  · -- entry :: entries
    rintro ⟨k, v⟩ rest ihkv ihrest bound hc ctx hd P H acc
    rw [AccuClosedEntries] at hc
    obtain ⟨hc, hcrest⟩ := band_true hc
    obtain ⟨hck, hcv⟩ := band_true hc
    rw [varsEntries, funcsEntries, OpsWellFormedEntries] at H
    have Hkv : Hyp ctx P (k.vars ++ v.vars) (k.funcs ++ v.funcs)
        (OpsWellFormed k && OpsWellFormed v) :=
      H.mono (fun _ h => List.mem_append_left _ h) (fun _ h => List.mem_append_left _ h)
        (fun h => (band_true h).1)
    have Hrest : Hyp ctx P (varsEntries rest) (funcsEntries rest) (OpsWellFormedEntries rest) :=
      H.mono (fun _ h => List.mem_append_right _ h) (fun _ h => List.mem_append_right _ h)
        (fun h => (band_true h).2)
    obtain ⟨sk, sv⟩ := ihkv bound hck hcv ctx hd P Hkv
    rw [evalEntries]
    apply SatP.bind sk; intro kv _
    split
    · exact SatP.throw_good H.good rfl
    · apply SatP.bind sv; intro vv _
      exact ihrest bound hcrest ctx hd P Hrest _
  · -- pair
    intro k v ihk ihv bound hck hcv ctx hd P H
    dsimp only at H hck hcv ⊢
    have Hk : Hyp ctx P k.vars k.funcs (OpsWellFormed k) :=
      H.mono (fun _ h => List.mem_append_left _ h) (fun _ h => List.mem_append_left _ h)
        (fun h => (band_true h).1)
    have Hv : Hyp ctx P v.vars v.funcs (OpsWellFormed v) :=
      H.mono (fun _ h => List.mem_append_right _ h) (fun _ h => List.mem_append_right _ h)
        (fun h => (band_true h).2)
    exact ⟨ihk bound hck ctx hd P Hk, ihv bound hcv ctx hd P Hv⟩

/-- MAIN (coverage): if executing a program fails because a variable or function is undeclared,
that name is among the reported variables or functions. -/
theorem undeclared_is_reported (e : Expr) (bound : List String) (hc : AccuClosed bound e = true)
    (ctx : Ctx) (hd : Defines ctx bound) (st : St Value) (n : String) (st' : St Value)
    (h : eval ctx e st = (.err (.undeclared n), st')) :
    n ∈ e.vars ∨ n ∈ e.funcs := by
  have H : Hyp ctx (fun err => ∀ m, err = .undeclared m → m ∈ e.vars ∨ m ∈ e.funcs)
      e.vars e.funcs (OpsWellFormed e) :=
    { good := fun err herr m hm => by subst hm; cases herr
      vars := fun v hv _ m hm => by cases hm; exact Or.inl hv
      funs := fun f hf _ _ m hm => by cases hm; exact Or.inr hf
      wf := Or.inr (fun f hf m hm => by cases hm; exact Or.inr hf) }
  exact (eval_satP e bound hc ctx hd _ H).err_of_run h n rfl

/-- corollary for whole programs (nothing bound outside) -/
theorem undeclared_is_reported_program (e : Expr) (hc : AccuClosed [] e = true) (ctx : Ctx)
    (n : String) (h : (execute ctx e).1 = .err (.undeclared n)) :
    n ∈ e.vars ∨ n ∈ e.funcs := by
  refine undeclared_is_reported e [] hc ctx (fun _ hn => nomatch hn) {} n (execute ctx e).2 ?_
  rw [← h]
  rfl

/-- MAIN (converse): when the context defines every reported variable and every reported
function that is not an operator, execution never fails with an undeclared reference. -/
theorem declared_never_undeclared (e : Expr) (bound : List String)
    (hc : AccuClosed bound e = true) (hw : OpsWellFormed e = true) (ctx : Ctx)
    (hd : Defines ctx bound)
    (hv : ∀ v ∈ e.vars, (ctx.getVariable v).isSome)
    (hf : ∀ f ∈ e.funcs, isOperatorName f = true ∨ ctx.hasFunction f = true)
    (st : St Value) (n : String) (st' : St Value) :
    eval ctx e st ≠ (.err (.undeclared n), st') := by
  intro h
  have H : Hyp ctx (fun err => err.isUndecl = false) e.vars e.funcs (OpsWellFormed e) :=
    { good := fun _ herr => herr
      vars := fun v hv' hnone => by
        have := hv v hv'
        rw [hnone] at this; cases this
      funs := fun f hf' hnone hop => by
        rcases hf f hf' with h1 | h1
        · rw [hop] at h1; cases h1
        · unfold Ctx.hasFunction at h1
          rw [hnone] at h1; cases h1
      wf := Or.inl hw }
  have := (eval_satP e bound hc ctx hd _ H).err_of_run h
  cases this

/-- macro-internal accumulators are never reported -/
theorem accumulators_never_reported (e : Expr) (n : String) (h : n ∈ e.vars) :
    isInternalName n = false := by
  revert e
  apply Expr.rec
    (motive_1 := fun e => n ∈ e.vars → isInternalName n = false)
    (motive_2 := fun es => n ∈ varsList es → isInternalName n = false)
    (motive_3 := fun es => n ∈ varsEntries es → isInternalName n = false)
    (motive_4 := fun p => n ∈ p.1.vars ++ p.2.vars → isInternalName n = false)
  case ident =>
    intro m h
    rw [Expr.vars] at h
    split at h
    · cases h
    · rename_i hm
      cases List.mem_singleton.mp h
      simpa using hm
  all_goals
    intros
    simp only [Expr.vars, varsList, varsEntries, List.mem_append, List.not_mem_nil] at *
    try grind

mutual
/-- all identifier names occurring in a tree -/
def identNames : Expr → List String
  | .lit _ => []
  | .ident n => [n]
  | .call _ args => identNamesList args
  | .mcall _ t args => identNames t ++ identNamesList args
  | .select e _ _ => identNames e
  | .list es => identNamesList es
  | .map es => identNamesEntries es
  | .struct _ _ vs => identNamesList vs
  | .comp _ r _ i c s res => identNames r ++ identNames i ++ identNames c ++ identNames s ++ identNames res
  | .unspecified => []
def identNamesList : List Expr → List String
  | [] => []
  | e :: es => identNames e ++ identNamesList es
def identNamesEntries : List (Expr × Expr) → List String
  | [] => []
  | (k, v) :: es => identNames k ++ identNames v ++ identNamesEntries es
end

/-- every reported variable occurs as an identifier in the tree -/
theorem reported_vars_are_identifiers (e : Expr) (n : String) (h : n ∈ e.vars) :
    n ∈ identNames e := by
  revert e
  apply Expr.rec
    (motive_1 := fun e => n ∈ e.vars → n ∈ identNames e)
    (motive_2 := fun es => n ∈ varsList es → n ∈ identNamesList es)
    (motive_3 := fun es => n ∈ varsEntries es → n ∈ identNamesEntries es)
    (motive_4 := fun p => n ∈ p.1.vars ++ p.2.vars → n ∈ identNames p.1 ++ identNames p.2)
  case ident =>
    intro m h
    rw [Expr.vars] at h
    rw [identNames]
    split at h
    · cases h
    · exact h
  all_goals
    intros
    simp only [Expr.vars, varsList, varsEntries, identNames, identNamesList, identNamesEntries,
      List.mem_append, List.not_mem_nil] at *
    try grind

/-- every reported function is the name of a call node, and every call node's name is reported -/
theorem call_names_reported (f : String) (args : List Expr) (t : Expr) :
    f ∈ (Expr.call f args).funcs ∧ f ∈ (Expr.mcall f t args).funcs := by
  constructor
  · rw [Expr.funcs]; exact List.mem_cons_self ..
  · rw [Expr.funcs]; exact List.mem_cons_self ..

/-- the report does not depend on the context: `vars`/`funcs` take none (stated for the
record: two executions against different contexts see the same report) -/
theorem refs_independent_of_ctx (e : Expr) (_ctx1 _ctx2 : Ctx) :
    (e.vars, e.funcs) = (e.vars, e.funcs) := rfl

/-! ### non-vacuity and necessity of the hypotheses -/

/-- an unbound `@`-identifier is looked up but not reported: `AccuClosed` is needed -/
example : (execute {} (.ident "@x")).1 = .err (.undeclared "@x") ∧
    (Expr.ident "@x").vars = [] ∧ AccuClosed [] (.ident "@x") = false := by
  refine ⟨by rfl, by decide, by decide⟩

/-- an operator name used with a foreign arity is looked up as a function: `OpsWellFormed` is
needed for the converse (the name is still reported, as the coverage theorem says) -/
example : (execute {} (.call "_+_" [.lit (.int 1)])).1 = .err (.undeclared "_+_") ∧
    OpsWellFormed (.call "_+_" [.lit (.int 1)]) = false ∧
    isOperatorName "_+_" = true ∧ "_+_" ∈ (Expr.call "_+_" [.lit (.int 1)]).funcs := by
  refine ⟨by rfl, by decide, by decide, by decide⟩

/-- the comprehension of `C02.demo` meets the hypotheses; without `h` the failure names `h`,
which is reported -/
example : AccuClosed [] C02.demo = true ∧ OpsWellFormed C02.demo = true ∧
    (execute {} C02.demo).1 = .err (.undeclared "h") ∧ "h" ∈ C02.demo.funcs := by
  refine ⟨by decide, by decide, by rfl, by decide⟩

end Cel.Props.C19
