import CelModel.Parser
import CelModel.Eval
import CelModel.Lemmas.Digits
import CelModel.Lemmas.Conv
import CelModel.Lemmas.Utf8
import CelModel.Lemmas.OfInt
/-!
# C13 — numeric literals and conversions preserve the number or fail

Literal decoding is `Parser.intLiteral` / `uintLiteral` (`visit_Int` / `visit_Uint`), the
conversions are `intFn`, `uintFn`, `doubleFn`, `stringFn` (`functions.rs`).  Decimal text is
`natToDec` / `intToDec` (= `Nat.repr`, i.e. `Nat.toDigits 10`), hexadecimal text is
`Nat.toDigits 16`.  Helper lemmas are in `CelModel/Lemmas/{Digits,Conv,Utf8,OfInt}.lean`.

Not proved here (validated by the correspondence check only, see DESIGN.md): that the model's
shortest-round-trip printing and correctly rounded parsing of doubles (`F64.fmt`, `F64.parse`)
are inverse to each other, and that `F64.ofInt` rounds to nearest-even beyond 2^53.
-/
namespace Cel.Props.C13
open Cel Cel.Lemmas.Digits Cel.Lemmas.Conv

/-! ## literals -/

/-- every decimal int literal within range evaluates to exactly the number it denotes -/
theorem int_literal_exact (n : Nat) (h : (n : Int) ≤ i64Max) :
    Parser.intLiteral false (natToDec n) = some (.lit (.int n)) := by
  rw [intLiteral_natToDec]
  have : inI64 (n : Int) = true := by rw [inI64_iff]; unfold i64Max at h; omega
  simp [this]

/-- … including negative ones, down to the most negative int written as a signed literal -/
theorem int_literal_signed_exact (n : Nat) (h : (n : Int) ≤ i64Max + 1) :
    Parser.intLiteral true (natToDec n) = some (.lit (.int (-(n : Int)))) := by
  rw [intLiteral_natToDec]
  have : inI64 (-(n : Int)) = true := by rw [inI64_iff]; unfold i64Max at h; omega
  simp [this]

/-- out-of-range int literals are compile errors -/
theorem int_literal_out_of_range_rejected (n : Nat) :
    ((n : Int) > i64Max → Parser.intLiteral false (natToDec n) = none) ∧
    ((n : Int) > i64Max + 1 → Parser.intLiteral true (natToDec n) = none) := by
  constructor
  · intro h
    rw [intLiteral_natToDec]
    have : inI64 (n : Int) = false := by
      rw [Bool.eq_false_iff, Ne, inI64_iff]; unfold i64Max at h; omega
    simp [this]
  · intro h
    rw [intLiteral_natToDec]
    have : inI64 (-(n : Int)) = false := by
      rw [Bool.eq_false_iff, Ne, inI64_iff]; unfold i64Max at h; omega
    simp [this]

/-- hexadecimal int literals -/
theorem hex_int_literal_exact (n : Nat) (neg : Bool)
    (h : if neg then (n : Int) ≤ i64Max + 1 else (n : Int) ≤ i64Max) :
    Parser.intLiteral neg ('0' :: 'x' :: Nat.toDigits 16 n) =
      some (.lit (.int (if neg then -(n : Int) else n))) := by
  rw [intLiteral_hex]
  have : inI64 (if neg then -(n : Int) else n) = true := by
    rw [inI64_iff]; unfold i64Max at h
    cases neg <;> simp at h ⊢ <;> omega
  simp [this]

/-- uint literals, decimal and hexadecimal, with either suffix -/
theorem uint_literal_exact (n : Nat) (h : (n : Int) ≤ u64Max) (suffix : Char) :
    Parser.uintLiteral (natToDec n ++ [suffix]) = some (.lit (.uint n)) ∧
    Parser.uintLiteral ('0' :: 'x' :: Nat.toDigits 16 n ++ [suffix]) = some (.lit (.uint n)) := by
  have : inU64 (n : Int) = true := by rw [inU64_iff]; unfold u64Max at h; omega
  rw [uintLiteral_dec, uintLiteral_hex]
  simp [this]

theorem uint_literal_out_of_range_rejected (n : Nat) (h : (n : Int) > u64Max) (suffix : Char) :
    Parser.uintLiteral (natToDec n ++ [suffix]) = none := by
  have : inU64 (n : Int) = false := by
    rw [Bool.eq_false_iff, Ne, inU64_iff]; unfold u64Max at h; omega
  rw [uintLiteral_dec]
  simp [this]

/-! ## conversions from double: truncation toward zero, or an error — never saturation -/

/-- the integer part of a finite double, toward zero -/
def truncOf (neg : Bool) (m : Nat) (e : Int) : Int := F64.sgn neg (F64.truncMag m e)

/-- truncation is toward zero and loses less than one unit: for `e < 0`,
`truncMag · 2^(-e) ≤ m < (truncMag + 1) · 2^(-e)`; for `e ≥ 0` the value is an integer -/
theorem trunc_toward_zero (m : Nat) (e : Int) :
    (0 ≤ e → F64.truncMag m e = m * 2 ^ e.toNat) ∧
    (e < 0 → F64.truncMag m e * 2 ^ (-e).toNat ≤ m ∧ m < (F64.truncMag m e + 1) * 2 ^ (-e).toNat) := by
  constructor
  · intro h; simp [F64.truncMag, h]
  · intro h
    have hne : ¬ e ≥ 0 := by omega
    simp only [F64.truncMag, hne, if_false]
    have hd : 0 < 2 ^ (-e).toNat := Nat.pow_pos (by decide)
    generalize 2 ^ (-e).toNat = d at *
    have h1 := Nat.div_add_mod m d
    have h2 := Nat.mod_lt m hd
    rw [Nat.add_mul, Nat.mul_comm (m / d) d]
    omega

theorem int_of_double_spec (b : UInt64) :
    intFn (.dbl b) =
      match F64.decode b with
      | .fin neg m e =>
        if inI64 (truncOf neg m e) then .ok (.int (truncOf neg m e)) else .err .functionError
      | _ => .err .functionError := by
  cases h : F64.decode b with
  | nan => simp [intFn, F64.truncToInt, h]
  | inf neg => simp [intFn, F64.truncToInt, h]
  | fin neg m e =>
    simp only [intFn, F64.truncToInt, h, truncOf]
    rfl

/-- uint(): accepted exactly for 0 ≤ f < 2^64 (so −0.0 gives 0 and −0.5 is an error) -/
theorem uint_of_double_spec (b : UInt64) :
    uintFn (.dbl b) =
      match F64.decode b with
      | .fin neg m e =>
        if (neg = false ∨ m = 0) ∧ (F64.truncMag m e : Int) ≤ u64Max
        then .ok (.uint (F64.truncMag m e)) else .err .functionError
      | _ => .err .functionError := by
  cases h : F64.decode b with
  | nan => simp [uintFn, F64.truncToInt, h]
  | inf neg => simp [uintFn, F64.truncToInt, h]
  | fin neg m e =>
    simp only [uintFn, F64.truncToInt, h, cmp_zero_gt]
    cases neg with
    | false => simp [F64.sgn]
    | true =>
      by_cases hm : m = 0
      · subst hm
        have h1 : F64.truncMag 0 e = 0 := by unfold F64.truncMag; split <;> simp
        simp [F64.sgn, h1]
      · simp [hm]

/-- NaN and the infinities are errors for both -/
theorem nan_inf_rejected (b : UInt64) (h : F64.isFinite b = false) :
    intFn (.dbl b) = .err .functionError ∧ uintFn (.dbl b) = .err .functionError := by
  unfold F64.isFinite at h
  cases hd : F64.decode b <;> simp [hd] at h <;> simp [intFn, uintFn, F64.truncToInt, hd]

/-- int ↔ uint: the same number or an error -/
theorem int_uint_cross_spec (i n : Int) :
    intFn (.uint n) = (if inI64 n then .ok (.int n) else .err .functionError) ∧
    uintFn (.int i) = (if inU64 i then .ok (.uint i) else .err .functionError) ∧
    intFn (.int i) = .ok (.int i) ∧ uintFn (.uint n) = .ok (.uint n) := by
  simp [intFn, uintFn]

/-- int → double is exact up to 2^53 in magnitude -/
theorem double_of_int_exact_small (i : Int) (h : i.natAbs ≤ 2 ^ 53) :
    F64.keyD (F64.decode (F64.ofInt i)) = some (F64.keyI i) := by
  exact Cel.Lemmas.OfInt.double_of_int_exact_small i h

/-! ## string() and back -/

theorem string_int_roundtrip (i : Int) (h : inI64 i = true) :
    (stringFn (.int i)).bind intFn = .ok (.int i) := by
  simp only [stringFn, Outcome.bind, intFn, intToDec]
  by_cases hneg : i < 0
  · rw [if_pos hneg, parseIntText_neg_dec]
    have : -((i.natAbs : Nat) : Int) = i := by omega
    simp [this, h]
  · rw [if_neg hneg, parseIntText_dec]
    have : ((i.natAbs : Nat) : Int) = i := by omega
    simp [this, h]

theorem string_uint_roundtrip (n : Nat) (h : inU64 n = true) :
    (stringFn (.uint n)).bind uintFn = .ok (.uint n) := by
  simp only [stringFn, Outcome.bind, uintFn, intToDec]
  have hneg : ¬ ((n : Int) < 0) := by omega
  simp only [hneg, if_false, Int.natAbs_natCast, parseIntText_dec, h, if_true]

/-- UTF-8: decoding the encoding of a string gives the string back, so
`string(bytes(s)) == s` for every string -/
theorem utf8_roundtrip (s : Str) : bytesToStrLossy (strToBytes s) = s := by
  exact Cel.Lemmas.Utf8.utf8_roundtrip s

theorem string_bytes_roundtrip (s : Str) :
    (applyBuiltin {} .bytes [.str s]).bind stringFn = .ok (.str s) := by
  simp only [applyBuiltin, Outcome.bind, stringFn, utf8_roundtrip]

end Cel.Props.C13
