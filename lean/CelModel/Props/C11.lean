import CelModel.CtxOps
import CelModel.Macros
import CelModel.Lemmas.Monad
import CelModel.Props.C07
/-!
# C11 — variables resolve to the innermost binding and scopes never leak
-/
namespace Cel.Props.C11
open Cel

/-- the obvious specification of one scope: a finite function from names to values -/
def scopeFn (s : Scope) : String → Option Value := fun n => Ctx.lookupScope s n

/-- `insert` on a scope is functional update: the name now denotes the new value and every
other name is untouched (redefinition replaces, never duplicates) -/
theorem lookup_scopeInsert (s : Scope) (n m : String) (v : Value) :
    Ctx.lookupScope (Ctx.scopeInsert s n v) m =
      if m = n then some v else Ctx.lookupScope s m := by
  induction s with
  | nil =>
    by_cases h : m = n
    · subst h; simp [Ctx.scopeInsert, Ctx.lookupScope]
    · have : (n == m) = false := by simp; exact fun h' => h h'.symm
      simp [Ctx.scopeInsert, Ctx.lookupScope, h, this]
  | cons kv rest ih =>
    obtain ⟨k, v'⟩ := kv
    by_cases hk : k = n
    · subst hk
      by_cases h : m = k
      · subst h; simp [Ctx.scopeInsert, Ctx.lookupScope]
      · have : (k == m) = false := by simp; exact fun h' => h h'.symm
        simp [Ctx.scopeInsert, Ctx.lookupScope, h, this]
    · have hkn : (k == n) = false := by simp [hk]
      by_cases hm : k = m
      · subst hm
        simp [Ctx.scopeInsert, Ctx.lookupScope, hkn, hk]
      · have hkm : (k == m) = false := by simp [hm]
        simp [Ctx.scopeInsert, Ctx.lookupScope, hkn, hkm, ih]

/-- lookup returns the value from the innermost scope that defines the name -/
theorem lookup_innermost (scopes : List Scope) (n : String) :
    Ctx.getVar scopes n = scopes.findSome? (fun s => Ctx.lookupScope s n) := by
  induction scopes with
  | nil => rfl
  | cons s rest ih =>
    simp only [Ctx.getVar, List.findSome?_cons]
    cases Ctx.lookupScope s n <;> simp [ih]

/-- defining (or redefining) a name in the current scope: that name now resolves to the new
value, every other name resolves as before -/
theorem define_then_lookup (c : Ctx) (n m : String) (v : Value) (hs : c.scopes ≠ []) :
    (c.bind n v).getVariable m = if m = n then some v else c.getVariable m := by
  unfold Ctx.bind Ctx.getVariable
  match hsc : c.scopes, hs with
  | s :: rest, _ =>
    simp only [Ctx.getVar, lookup_scopeInsert]
    by_cases h : m = n
    · simp [h]
    · simp [h]

/-- an inner scope shadows: a definition there wins over any outer binding of the name -/
theorem inner_definition_shadows (c : Ctx) (n : String) (v : Value) :
    ((c.push []).bind n v).getVariable n = some v := by
  simp [Ctx.push, Ctx.bind, Ctx.getVariable, Ctx.getVar, Ctx.scopeInsert, Ctx.lookupScope]

/-- names the inner scope does not define resolve in the parent chain -/
theorem inner_scope_sees_outer (c : Ctx) (s : Scope) (m : String)
    (h : Ctx.lookupScope s m = none) : (c.push s).getVariable m = c.getVariable m := by
  simp [Ctx.push, Ctx.getVariable, Ctx.getVar, h]

/-- inner scopes never alter their parents: whatever is defined in an inner scope, after it is
dropped the context is exactly what it was -/
theorem drop_restores_parent (c : Ctx) (defs : List (String × Value)) (hs : c.scopes ≠ []) :
    (defs.foldl (fun c' d => c'.bind d.1 d.2) (c.push [])).pop = c := by
  have key : ∀ (defs : List (String × Value)) (s : Scope),
      (defs.foldl (fun c' d => Ctx.bind c' d.1 d.2) { c with scopes := s :: c.scopes }).pop = c := by
    intro defs
    induction defs with
    | nil =>
      intro s
      simp only [List.foldl_nil, Ctx.pop]
      match hsc : c.scopes, hs with
      | s0 :: rest, _ => simp [← hsc]
    | cons d ds ih =>
      intro s
      simp only [List.foldl_cons]
      have : Ctx.bind { c with scopes := s :: c.scopes } d.1 d.2 =
          { c with scopes := Ctx.scopeInsert s d.1 d.2 :: c.scopes } := by
        simp [Ctx.bind]
      rw [this]
      exact ih _
  exact key defs []

/-- variables and functions live in separate namespaces: defining a variable never changes
which functions exist, registering a function never changes any variable lookup -/
theorem variables_and_functions_disjoint (c : Ctx) (n m : String) (v : Value) (k : FnKind) :
    (c.bind n v).getFunction m = c.getFunction m ∧
    (c.addFunction n k).getVariable m = c.getVariable m := by
  constructor
  · unfold Ctx.bind Ctx.getFunction
    split <;> rfl
  · unfold Ctx.addFunction Ctx.getVariable
    split <;> rfl

/-- a variable and a function may share a name without either hiding the other -/
theorem same_name_variable_and_function (c : Ctx) (n : String) (v : Value) (k : FnKind)
    (hroot : ∃ s, c.scopes = [s]) :
    ((c.addFunction n k).bind n v).getVariable n = some v ∧
    ((c.addFunction n k).bind n v).hasFunction n = true := by
  obtain ⟨s, hs⟩ := hroot
  constructor
  · simp [Ctx.addFunction, Ctx.bind, Ctx.getVariable, hs, Ctx.getVar, lookup_scopeInsert]
  · simp [Ctx.addFunction, Ctx.bind, Ctx.hasFunction, Ctx.getFunction, hs, Ctx.lookupFn]

/-- functions registered on a child scope are ignored; the parent's registry is what counts -/
theorem add_function_on_child_ignored (c : Ctx) (s : Scope) (n : String) (k : FnKind)
    (hs : c.scopes ≠ []) : (c.push s).addFunction n k = c.push s := by
  unfold Ctx.push Ctx.addFunction
  match hsc : c.scopes, hs with
  | s0 :: rest, _ => rfl

/-- inside a macro body the iteration variable denotes the current element, whatever the outer
context binds under that name -/
theorem macro_var_denotes_current_element (c : Ctx) (v : String) (acc x : Value)
    (hv : v ≠ Macros.accu) (st : St Value) :
    eval (c.push [(Macros.accu, acc), (v, x)]) (.ident v) st = (.ok x, tickSt st) := by
  have h1 : (Macros.accu == v) = false := by simp; exact fun h => hv h.symm
  rw [eval]
  simp [Ctx.push, Ctx.getVariable, Ctx.getVar, Ctx.lookupScope, h1, bind, M.bind, M.tick, tickSt,
    pure, M.pure]

/-- names other than the iteration variable and the accumulator keep their outer meaning
inside the body -/
theorem outer_names_visible_in_body (c : Ctx) (v m : String) (acc x : Value)
    (h1 : m ≠ v) (h2 : m ≠ Macros.accu) :
    (c.push [(Macros.accu, acc), (v, x)]).getVariable m = c.getVariable m := by
  apply inner_scope_sees_outer
  have a : (Macros.accu == m) = false := by simp; exact fun h => h2 h.symm
  have b : (v == m) = false := by simp; exact fun h => h1 h.symm
  simp [Ctx.lookupScope, a, b]

/-- outside the body the outer binding, or its absence, is unchanged: the expression following
a macro in a list literal is evaluated in the original context -/
theorem after_macro_outer_binding_unchanged (c : Ctx) (macroExpr : Expr) (n : String) :
    eval c (.list [macroExpr, .ident n]) = (do
      M.tick
      let r ← eval c macroExpr
      let v ← eval c (.ident n)
      pure (.list [r, v])) := by
  rw [C07.list_literal_in_order]
  apply M.bind_congr; intro _
  apply M.bind_congr; intro r
  simp only [evalList, M.bind_assoc, M.pure_bind]

/-! ### non-vacuity -/
example : ((({} : Ctx).bind "x" (.int 1)).push [] |>.bind "x" (.int 2)).getVariable "x" = some (.int 2) := by
  rfl
example : (((({} : Ctx).bind "x" (.int 1)).push [] |>.bind "x" (.int 2)).pop).getVariable "x" = some (.int 1) := by
  rfl

end Cel.Props.C11
