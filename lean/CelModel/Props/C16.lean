import CelModel.Eval
import CelModel.Props.C08
import CelModel.Lemmas.Civil
import CelModel.Lemmas.Rfc3339
/-!
# C16 — timestamps keep the instant and calendar fields they were given

A timestamp is a UTC instant in nanoseconds plus its offset in seconds; the calendar is the
proleptic Gregorian day arithmetic of `Time.civilFromDays` / `Time.daysFromCivil` (chrono's
observable behaviour, modelled).  Statements only (to be proved).
-/
namespace Cel.Props.C16
open Cel Cel.Time

/-- a valid day-of-era date: year-of-era, March-based month index handled inside -/
def ValidYmd (y : Int) (m d : Nat) : Prop := 1 ≤ m ∧ m ≤ 12 ∧ 1 ≤ d ∧ d ≤ daysInMonth y m

/-- era table, one direction: every day of the 400-year era maps to a date and back -/
theorem doe_roundtrip (doe : Nat) (h : doe < 146097) :
    let (yoe, m, d) := civilOfDoe doe
    doeOfCivil yoe m d = doe ∧ yoe < 400 ∧ 1 ≤ m ∧ m ≤ 12 ∧ 1 ≤ d ∧ d ≤ 31 := by
  obtain ⟨yoe, m, d, hc, h1, h2, h3, h4, h5, h6⟩ := Table.civilOfDoe_spec doe h
  have := Table.dimYoe_le yoe m
  rw [hc]
  exact ⟨h1, h2, h3, h4, h5, by omega⟩

/-- every day number maps to a date that maps back to it -/
theorem days_roundtrip (z : Int) :
    let (y, m, d) := civilFromDays z
    daysFromCivil y m d = z := by
  obtain ⟨y, m, d, hc, h1, _⟩ := civilFromDays_spec z
  rw [hc]
  exact h1

/-- every valid date maps to a day number that maps back to it -/
theorem civil_roundtrip (y : Int) (m d : Nat) (h : ValidYmd y m d) :
    civilFromDays (daysFromCivil y m d) = (y, m, d) := by
  exact civilFromDays_daysFromCivil y m d h.1 h.2.1 h.2.2.1 h.2.2.2

/-- consecutive days: the next day number is the next calendar day's weekday, Sunday = 0, and
1970-01-01 (day 0) is a Thursday -/
theorem weekday_spec (utcNs offset : Int) :
    access .dayOfWeek utcNs offset = ((fields utcNs offset).days + 4) % 7 ∧
    0 ≤ access .dayOfWeek utcNs offset ∧ access .dayOfWeek utcNs offset ≤ 6 ∧
    access .dayOfWeek 0 0 = 4 := by
  refine ⟨rfl, ?_, ?_, by decide⟩
  · simp only [access]; omega
  · simp only [access]; omega

/-- the accessors with their documented origins: month, day of month and day of year are
0-based, `getDate` 1-based -/
theorem accessor_origins (utcNs offset : Int) :
    access .month utcNs offset = (fields utcNs offset).month - 1 ∧
    access .dayOfMonth utcNs offset = (fields utcNs offset).day - 1 ∧
    access .date utcNs offset = (fields utcNs offset).day ∧
    access .fullYear utcNs offset = (fields utcNs offset).year ∧
    access .dayOfYear utcNs offset =
      (fields utcNs offset).days - daysFromCivil (fields utcNs offset).year 1 1 := by
  exact ⟨rfl, rfl, rfl, rfl, rfl⟩

/-- the fields recompose to the local time: they are the proleptic-Gregorian fields of the
instant at the timestamp's own offset -/
theorem accessors_recompose (utcNs offset : Int) :
    let f := fields utcNs offset
    utcNs + offset * nsPerSec =
      (daysFromCivil f.year f.month f.day * 86400 + (f.hour * 3600 + f.minute * 60 + f.second : Nat)) * nsPerSec
        + f.nanos ∧
    f.hour < 24 ∧ f.minute < 60 ∧ f.second < 60 ∧ f.nanos < 1000000000 := by
  obtain ⟨y, m, d, hc, h1, _⟩ := civilFromDays_spec ((utcNs + offset * nsPerSec) / nsPerDay)
  simp only [fields, hc]
  rw [h1]
  simp only [nsPerDay, nsPerSec]
  generalize utcNs + offset * 1000000000 = l
  refine ⟨?_, ?_, ?_, ?_, ?_⟩ <;> omega

/-- equality and ordering compare instants regardless of offset -/
theorem cmp_by_instant_ignores_offset (a b o1 o2 : Int) :
    Value.partialCmp (.ts a o1) (.ts b o2) = some (compare a b) ∧
    Value.eq (.ts a o1) (.ts b o2) = (a == b) := by
  exact ⟨rfl, rfl⟩

/-- `t + d - d == t` and `(t + d) - t == d` whenever `t + d` is representable; otherwise the
addition is an error -/
theorem add_sub_duration_inverse (t o d : Int) (ht : inRange t = true) :
    (inRange (t + d) = true →
      arith .add (.ts t o) (.dur d) = .ok (.ts (t + d) o) ∧
      arith .sub (.ts (t + d) o) (.dur d) = .ok (.ts t o) ∧
      arith .sub (.ts (t + d) o) (.ts t o) = .ok (.dur d)) ∧
    (inRange (t + d) = false → arith .add (.ts t o) (.dur d) = .err .overflow) := by
  refine ⟨fun h => ⟨?_, ?_, ?_⟩, fun h => ?_⟩
  · simp [arith, h]
  · have : t + d - d = t := by omega
    simp [arith, this, ht]
  · have : t + d - t = d := by omega
    simp [arith, this]
  · simp [arith, h]

theorem time_ops_error_not_panic (op : ArithOp) (a b : Value) : (arith op a b).isPanic = false :=
  C08.arith_no_panic op a b

/-- (helper) the fraction `format` prints is one of the forms `parse` reads back exactly -/
theorem fracOK_format (nanos : Nat) (h : nanos < 1000000000) :
    Rfc.FracOK (if (nanos == 0) = true then []
      else if (nanos % 1000000 == 0) = true then '.' :: pad 3 (nanos / 1000000)
      else if (nanos % 1000 == 0) = true then '.' :: pad 6 (nanos / 1000)
      else '.' :: pad 9 nanos) nanos := by
  unfold Rfc.FracOK
  by_cases h0 : nanos = 0
  · left; simp [h0]
  · right
    by_cases h6 : nanos % 1000000 = 0
    · exact ⟨3, nanos / 1000000, by omega, by omega, by omega, by simp [h0, h6], by omega⟩
    · by_cases h3 : nanos % 1000 = 0
      · exact ⟨6, nanos / 1000, by omega, by omega, by omega, by simp [h0, h6, h3], by omega⟩
      · exact ⟨9, nanos, by omega, by omega, by omega, by simp [h0, h6, h3], by omega⟩

/-- RFC 3339 text round trip for years 0000–9999 and whole-minute offsets:
`timestamp(string(t)) == t`, offset included -/
theorem rfc3339_roundtrip (utcNs offset : Int)
    (hy : 0 ≤ (fields utcNs offset).year ∧ (fields utcNs offset).year ≤ 9999)
    (ho : offset % 60 = 0 ∧ -86400 < offset ∧ offset < 86400) :
    Time.parse (Time.format utcNs offset) = some (utcNs, offset) := by
  obtain ⟨y, m, d, hc, hdays, hm1, hm12, hd1, hdm⟩ :=
    civilFromDays_spec ((utcNs + offset * nsPerSec) / nsPerDay)
  simp only [fields, hc] at hy
  simp only [format, fields, hc]
  have hyb : (decide (0 ≤ y) && decide (y ≤ 9999)) = true := by simp [hy]
  rw [if_pos hyb]
  -- the time of day
  have hl : utcNs + offset * nsPerSec
      = daysFromCivil y m d * nsPerDay + (((utcNs + offset * nsPerSec) % nsPerDay).toNat : Int) := by
    rw [hdays]; simp only [nsPerDay, nsPerSec]; omega
  have hnod : ((utcNs + offset * nsPerSec) % nsPerDay).toNat < 86400000000000 := by
    simp only [nsPerDay, nsPerSec]; omega
  generalize ((utcNs + offset * nsPerSec) % nsPerDay).toNat = nod at hl hnod ⊢
  have hfrac := fracOK_format (nod % 1000000000) (Nat.mod_lt _ (by omega))
  generalize (if (nod % 1000000000 == 0) = true then []
      else if (nod % 1000000000 % 1000000 == 0) = true then
        '.' :: pad 3 (nod % 1000000000 / 1000000)
      else if (nod % 1000000000 % 1000 == 0) = true then '.' :: pad 6 (nod % 1000000000 / 1000)
      else '.' :: pad 9 (nod % 1000000000)) = frac at hfrac ⊢
  have hYc : ((y.toNat : Nat) : Int) = y := by omega
  have key := Rfc.parse_render y.toNat m d (nod / 1000000000 / 3600) (nod / 1000000000 / 60 % 60)
    (nod / 1000000000 % 60) (nod % 1000000000) frac (if offset < 0 then '-' else '+')
    ((offset.natAbs + 30) / 60 / 60) ((offset.natAbs + 30) / 60 % 60)
    (by omega) hm1 hm12 hd1 (by rw [hYc]; exact hdm) (by omega) (by omega) (by omega) (by omega)
    (by omega) (by split <;> simp) hfrac
  simp only [List.append_assoc, List.cons_append, List.nil_append]
  rw [key, hYc]
  have hoff : (if (if offset < 0 then '-' else '+') = '-' then
        -(((offset.natAbs + 30) / 60 / 60 * 3600 + (offset.natAbs + 30) / 60 % 60 * 60 : Nat) : Int)
      else (((offset.natAbs + 30) / 60 / 60 * 3600 + (offset.natAbs + 30) / 60 % 60 * 60 : Nat) : Int))
      = offset := by
    by_cases hneg : offset < 0
    · simp only [hneg, if_true]; omega
    · have : ¬ ('+' = '-') := by decide
      simp only [hneg, if_false, this]; omega
  rw [hoff]
  generalize daysFromCivil y m d = days at hl
  simp only [nsPerDay, nsPerSec] at hl ⊢
  simp only [Option.some.injEq, Prod.mk.injEq, and_true]
  omega

/-! ### non-vacuity -/
example : civilFromDays 11016 = (2000, 2, 29) ∧ daysFromCivil 2000 2 29 = 11016 := by
  decide
example : Time.parse "2000-02-29T00:00:00.123+01:00".toList = some (951778800123000000, 3600) := by
  have h : "2000-02-29T00:00:00.123+01:00".toList =
      ['2','0','0','0','-','0','2','-','2','9','T','0','0',':','0','0',':','0','0','.','1','2','3',
       '+','0','1',':','0','0'] := by simp
  rw [h]
  decide

end Cel.Props.C16
