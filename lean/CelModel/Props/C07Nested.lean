import CelModel.Props.C07Cost
/-!
# C07 (continued) — nested macros: work is bounded by size × product of the collection sizes

`cost_linear_comprehension_free` and `comp_cost_flat` (C07Cost) bound the work of
comprehension-free programs and of one macro level.  Here: programs whose macros nest to any
depth.  To keep the bound a function of the *program text* alone the ranges are list literals
(their length is then known syntactically); the bound `nodeBound e` counts every node once, except
that the loop condition and loop step of a comprehension over an `n`-element literal are counted
`n` times — so nested macros multiply, exactly as the property says, and nothing is ever
exponential in the nesting depth of calls.
-/
namespace Cel.Props.C07Cost
open Cel

mutual
/-- every comprehension in the tree ranges over a list literal -/
def litRanges : Expr → Bool
  | .lit _ => true
  | .ident _ => true
  | .call _ args => litRangesList args
  | .mcall _ t args => litRanges t && litRangesList args
  | .select e _ _ => litRanges e
  | .list es => litRangesList es
  | .map es => litRangesEntries es
  | .struct _ _ vs => litRangesList vs
  | .comp _ range _ init cond step result =>
    (match range with | .list _ => true | _ => false) &&
    litRanges range && litRanges init && litRanges cond && litRanges step && litRanges result
  | .unspecified => true
def litRangesList : List Expr → Bool
  | [] => true
  | e :: es => litRanges e && litRangesList es
def litRangesEntries : List (Expr × Expr) → Bool
  | [] => true
  | (k, v) :: es => litRanges k && litRanges v && litRangesEntries es
end

/-- number of elements of a list-literal range (0 for anything else) -/
def rangeLen : Expr → Nat
  | .list es => es.length
  | _ => 0

mutual
/-- the syntactic work bound: every node once, loop condition and step `rangeLen` times -/
def nodeBound : Expr → Nat
  | .lit _ => 1
  | .ident _ => 1
  | .call _ args => 1 + nodeBoundList args
  | .mcall _ t args => 1 + nodeBound t + nodeBoundList args
  | .select e _ _ => 1 + nodeBound e
  | .list es => 1 + nodeBoundList es
  | .map es => 1 + nodeBoundEntries es
  | .struct _ _ vs => 1 + nodeBoundList vs
  | .comp _ range _ init cond step result =>
    1 + nodeBound init + nodeBound range + rangeLen range * (nodeBound cond + nodeBound step) + nodeBound result
  | .unspecified => 1
def nodeBoundList : List Expr → Nat
  | [] => 0
  | e :: es => nodeBound e + nodeBoundList es
def nodeBoundEntries : List (Expr × Expr) → Nat
  | [] => 0
  | (k, v) :: es => nodeBound k + nodeBound v + nodeBoundEntries es
end

mutual
/-- the largest literal range in the tree -/
def maxRange : Expr → Nat
  | .lit _ => 0
  | .ident _ => 0
  | .call _ args => maxRangeList args
  | .mcall _ t args => max (maxRange t) (maxRangeList args)
  | .select e _ _ => maxRange e
  | .list es => maxRangeList es
  | .map es => maxRangeEntries es
  | .struct _ _ vs => maxRangeList vs
  | .comp _ range _ init cond step result =>
    max (rangeLen range) (max (maxRange range) (max (maxRange init) (max (maxRange cond) (max (maxRange step) (maxRange result)))))
  | .unspecified => 0
def maxRangeList : List Expr → Nat
  | [] => 0
  | e :: es => max (maxRange e) (maxRangeList es)
def maxRangeEntries : List (Expr × Expr) → Nat
  | [] => 0
  | (k, v) :: es => max (maxRange k) (max (maxRange v) (maxRangeEntries es))
end

mutual
/-- nesting depth of comprehensions (how many loop bodies enclose the innermost node) -/
def compDepth : Expr → Nat
  | .lit _ => 0
  | .ident _ => 0
  | .call _ args => compDepthList args
  | .mcall _ t args => max (compDepth t) (compDepthList args)
  | .select e _ _ => compDepth e
  | .list es => compDepthList es
  | .map es => compDepthEntries es
  | .struct _ _ vs => compDepthList vs
  | .comp _ range _ init cond step result =>
    max (max (compDepth range) (compDepth init)) (max (1 + max (compDepth cond) (compDepth step)) (compDepth result))
  | .unspecified => 0
def compDepthList : List Expr → Nat
  | [] => 0
  | e :: es => max (compDepth e) (compDepthList es)
def compDepthEntries : List (Expr × Expr) → Nat
  | [] => 0
  | (k, v) :: es => max (compDepth k) (max (compDepth v) (compDepthEntries es))
end

/-! ## Helpers for the evaluator bound -/

theorem sum_map_nodeBound (es : List Expr) : (es.map nodeBound).sum = nodeBoundList es := by
  induction es with
  | nil => rw [nodeBoundList]; rfl
  | cons e es ih => rw [nodeBoundList, List.map_cons, List.sum_cons, ih]

/-- a successful `evalList` returns one value per expression -/
theorem evalList_length (ctx : Ctx) : ∀ (es : List Expr) (s : St Value) (vs : List Value)
    (s' : St Value), evalList ctx es s = (.ok vs, s') → vs.length = es.length := by
  intro es
  induction es with
  | nil =>
    intro s vs s' h
    rw [evalList] at h
    cases h
    rfl
  | cons e es ih =>
    intro s vs s' h
    rw [evalList, M.bind_apply] at h
    cases h1 : eval ctx e s with
    | mk o s1 =>
      rw [h1] at h
      cases o with
      | ok v =>
        dsimp only at h
        rw [M.bind_apply] at h
        cases h2 : evalList ctx es s1 with
        | mk o2 s2 =>
          rw [h2] at h
          cases o2 with
          | ok vs' =>
            dsimp only at h
            cases h
            rw [List.length_cons, List.length_cons, ih _ _ _ h2]
          | err _ => cases h
          | panic _ => cases h
      | err _ => cases h
      | panic _ => cases h

/-- a list literal evaluates (when it does) to a list with one element per literal entry -/
theorem eval_listLit_length (ctx : Ctx) (es : List Expr) :
    ∀ (s : St Value) (v : Value) (s' : St Value), eval ctx (.list es) s = (.ok v, s') →
    (match v with | .list xs => xs.length ≤ es.length | .map m => m.length ≤ es.length | _ => True) := by
  intro s v s' h
  rw [eval, M.tick_bind, M.bind_apply] at h
  cases h1 : evalList ctx es (tickSt s) with
  | mk o s1 =>
    rw [h1] at h
    cases o with
    | ok vs =>
      dsimp only at h
      cases h
      dsimp only
      exact Nat.le_of_eq (evalList_length ctx es _ _ _ h1)
    | err _ => cases h
    | panic _ => cases h

theorem litRanges_comp {iv av : String} {range init cond step result : Expr}
    (h : litRanges (.comp iv range av init cond step result) = true) :
    (∃ es, range = .list es) ∧ litRanges range = true ∧ litRanges init = true ∧
      litRanges cond = true ∧ litRanges step = true ∧ litRanges result = true := by
  unfold litRanges at h
  simp only [Bool.and_eq_true] at h
  obtain ⟨⟨⟨⟨⟨h0, h1⟩, h2⟩, h3⟩, h4⟩, h5⟩ := h
  refine ⟨?_, h1, h2, h3, h4, h5⟩
  cases range <;> first | exact ⟨_, rfl⟩ | cases h0

/-- the evaluator-wide bound for literal-range programs, by structural induction over the tree -/
theorem eval_cost_nested :
    ∀ e, litRanges e = true → ∀ ctx, CtxLinear ctx → Cost (eval ctx e) (nodeBound e) := by
  apply Expr.rec
    (motive_1 := fun e => litRanges e = true → ∀ ctx, CtxLinear ctx →
      Cost (eval ctx e) (nodeBound e))
    (motive_2 := fun es => litRangesList es = true → ∀ ctx, CtxLinear ctx →
      Cost (evalList ctx es) (nodeBoundList es) ∧
      ThunkCosts (evalThunks ctx es) (es.map nodeBound))
    (motive_3 := fun es => litRangesEntries es = true → ∀ ctx, CtxLinear ctx → ∀ acc,
      Cost (evalEntries ctx es acc) (nodeBoundEntries es))
    (motive_4 := fun p => litRanges p.1 = true → litRanges p.2 = true → ∀ ctx, CtxLinear ctx →
      Cost (eval ctx p.1) (nodeBound p.1) ∧ Cost (eval ctx p.2) (nodeBound p.2))
  · -- lit
    intro v _ ctx _
    rw [eval, nodeBound]
    exact Cost.tick_bind (b := 0) Cost.pure (by omega)
  · -- ident
    intro n _ ctx _
    rw [eval, nodeBound]
    apply Cost.tick_bind (b := 0) _ (by omega)
    split
    · exact Cost.pure
    · exact Cost.throw
  · -- call
    intro f args ih h ctx hl
    rw [litRanges] at h
    rw [eval, nodeBound]
    apply Cost.tick_bind (b := nodeBoundList args) _ (by omega)
    have := callNode_cost ctx hl f none args _ _ 0 (ih h ctx hl).2 (fun _ h => nomatch h)
    rw [sum_map_nodeBound] at this
    exact this.weaken (by omega)
  · -- mcall
    intro f t args iht ih h ctx hl
    rw [litRanges] at h
    obtain ⟨h1, h2⟩ := band_true h
    rw [eval, nodeBound]
    apply Cost.tick_bind (b := nodeBound t + nodeBoundList args) _ (by omega)
    have := callNode_cost ctx hl f (some (eval ctx t)) args _ _ (nodeBound t) (ih h2 ctx hl).2
      (by intro t' ht'; cases ht'; exact iht h1 ctx hl)
    rw [sum_map_nodeBound] at this
    exact this
  · -- select
    intro e field test ih h ctx hl
    rw [litRanges] at h
    rw [eval, nodeBound]
    apply Cost.tick_bind (b := nodeBound e) _ (by omega)
    apply Cost.bind (ih h ctx hl) (b := 0) _ (by omega)
    intro v
    split
    · exact Cost.pure
    · exact Cost.lift
  · -- list
    intro es ih h ctx hl
    rw [litRanges] at h
    rw [eval, nodeBound]
    apply Cost.tick_bind (b := nodeBoundList es) _ (by omega)
    apply Cost.bind (ih h ctx hl).1 (b := 0) _ (by omega)
    intro vs
    exact Cost.pure
  · -- map
    intro es ih h ctx hl
    rw [litRanges] at h
    rw [eval, nodeBound]
    apply Cost.tick_bind (b := nodeBoundEntries es) _ (by omega)
    apply Cost.bind (ih h ctx hl []) (b := 0) _ (by omega)
    intro m
    exact Cost.pure
  · -- struct
    intro name fields vals _ _ ctx _
    rw [eval, nodeBound]
    exact Cost.tick_bind (b := 0) Cost.throw (by omega)
  · -- comp
    intro iv range av init cond step result ihr ihi ihc ihs ihres h ctx hl
    obtain ⟨⟨es, rfl⟩, hr, hi, hc, hs, hres⟩ := litRanges_comp h
    rw [eval, nodeBound, rangeLen]
    apply Cost.tick_bind
      (b := nodeBound init + (nodeBound (.list es) +
        (es.length * (nodeBound cond + nodeBound step) + nodeBound result))) _ (by omega)
    apply Cost.bind (ihi hi ctx hl) _ (Nat.le_refl _)
    intro vinit
    apply Cost.bindQ (CostQ.of (ihr hr ctx hl) (eval_listLit_length ctx es)) _ (Nat.le_refl _)
    intro r hrn
    apply Cost.bindQ (Q := fun items => items.length ≤ es.length) (a := 0)
      (b := es.length * (nodeBound cond + nodeBound step) + nodeBound result) _ _ (by omega)
    · split
      · exact CostQ.pure (by simpa using hrn)
      · exact CostQ.pure (by simpa using hrn)
      · exact CostQ.throw
    · intro items hlen
      have hmul := Nat.mul_le_mul_right (nodeBound cond + nodeBound step) hlen
      apply Cost.bind (loopG_cost' iv av _ _ (nodeBound cond) (nodeBound step)
        (fun sc => ihc hc _ (ctxLinear_push hl sc))
        (fun sc => ihs hs _ (ctxLinear_push hl sc)) items _) (b := nodeBound result) _ (by omega)
      intro sc
      exact ihres hres _ (ctxLinear_push hl sc)
  · -- unspecified
    intro _ ctx _
    rw [eval]
    exact Cost.panic
  · -- []
    intro _ ctx _
    refine ⟨?_, ?_⟩
    · rw [evalList]; exact Cost.pure
    · rw [evalThunks]; intro i t ht; simp at ht
  · -- e :: es
    intro e es ihe ihes h ctx hl
    rw [litRangesList] at h
    obtain ⟨h1, h2⟩ := band_true h
    refine ⟨?_, ?_⟩
    · rw [evalList, nodeBoundList]
      apply Cost.bind (ihe h1 ctx hl) (b := nodeBoundList es) _ (by omega)
      intro v
      apply Cost.bind (ihes h2 ctx hl).1 (b := 0) _ (by omega)
      intro vs
      exact Cost.pure
    · rw [evalThunks]
      intro i t ht
      cases i with
      | zero =>
        simp only [List.getElem?_cons_zero, Option.some.injEq] at ht
        subst ht
        simpa using ihe h1 ctx hl
      | succ j =>
        simp only [List.getElem?_cons_succ] at ht
        simpa using (ihes h2 ctx hl).2 j t ht
  · -- entries []
    intro _ ctx _ acc
    rw [evalEntries]
    exact Cost.pure
  · -- entry :: entries
    rintro ⟨k, v⟩ rest ihkv ihrest h ctx hl acc
    rw [litRangesEntries] at h
    obtain ⟨h, hrest⟩ := band_true h
    obtain ⟨hk, hv⟩ := band_true h
    obtain ⟨sk, sv⟩ := ihkv hk hv ctx hl
    dsimp only at sk sv
    rw [evalEntries, nodeBoundEntries]
    apply Cost.bind sk (b := nodeBound v + nodeBoundEntries rest) _ (by omega)
    intro kv
    split
    · exact Cost.throw
    · apply Cost.bind sv (b := nodeBoundEntries rest) _ (by omega)
      intro vv
      exact ihrest hrest ctx hl _
  · -- pair
    intro k v ihk ihv hk hv ctx hl
    exact ⟨ihk hk ctx hl, ihv hv ctx hl⟩

/-- MAIN (nested macros): a program whose macros range over list literals performs at most
`nodeBound e` node evaluations, whatever the context binds and however deep the nesting. -/
theorem cost_nested_literal_ranges (e : Expr) (h : litRanges e = true) (ctx : Ctx)
    (hl : CtxLinear ctx) (s : St Value) :
    (eval ctx e s).2.steps ≤ s.steps + nodeBound e :=
  eval_cost_nested e h ctx hl s

/-! ## Helpers for the arithmetic bound -/

theorem one_le_pow_succ (M D : Nat) : 1 ≤ (M + 1) ^ D := Nat.pow_pos (Nat.succ_pos M)

/-- one node on top of sub-terms already within the bound -/
theorem node_arith (a sz P : Nat) (hP : 1 ≤ P) (ha : a ≤ sz * P) : 1 + a ≤ (1 + sz) * P := by
  rw [Nat.add_mul, Nat.one_mul]
  omega

theorem node2_arith (a b sa sb P : Nat) (hP : 1 ≤ P) (ha : a ≤ sa * P) (hb : b ≤ sb * P) :
    1 + a + b ≤ (1 + sa + sb) * P := by
  rw [Nat.add_mul, Nat.add_mul, Nat.one_mul]
  omega

theorem add_arith (a b sa sb P : Nat) (ha : a ≤ sa * P) (hb : b ≤ sb * P) :
    a + b ≤ (sa + sb) * P := by
  rw [Nat.add_mul]
  omega

/-- the loop body, repeated at most `M` times, fits in one more factor `M + 1` -/
theorem loop_arith (L M nbc nbs sc ss Q : Nat) (hL : L ≤ M) (hc : nbc ≤ sc * Q)
    (hs : nbs ≤ ss * Q) : L * (nbc + nbs) ≤ (sc + ss) * (Q * (M + 1)) := by
  have h1 : L * (nbc + nbs) ≤ (M + 1) * ((sc + ss) * Q) :=
    Nat.mul_le_mul (by omega) (add_arith _ _ _ _ _ hc hs)
  have h2 : (M + 1) * ((sc + ss) * Q) = (sc + ss) * (Q * (M + 1)) := by
    rw [Nat.mul_comm (M + 1), Nat.mul_assoc]
  omega

theorem comp_arith (nbi nbr loop nbres si sr sc ss sres P : Nat) (hP : 1 ≤ P)
    (hi : nbi ≤ si * P) (hr : nbr ≤ sr * P) (hloop : loop ≤ (sc + ss) * P)
    (hres : nbres ≤ sres * P) :
    1 + nbi + nbr + loop + nbres ≤ (1 + sr + si + sc + ss + sres) * P := by
  rw [Nat.add_mul] at hloop
  rw [Nat.add_mul, Nat.add_mul, Nat.add_mul, Nat.add_mul, Nat.add_mul, Nat.one_mul]
  omega

/-- the arithmetic bound, monotone in the range bound `M` and the depth bound `D` -/
theorem nodeBound_le_gen : ∀ e : Expr, ∀ M D, maxRange e ≤ M → compDepth e ≤ D →
    nodeBound e ≤ e.size * (M + 1) ^ D := by
  apply Expr.rec
    (motive_1 := fun e => ∀ M D, maxRange e ≤ M → compDepth e ≤ D →
      nodeBound e ≤ e.size * (M + 1) ^ D)
    (motive_2 := fun es => ∀ M D, maxRangeList es ≤ M → compDepthList es ≤ D →
      nodeBoundList es ≤ sizeList es * (M + 1) ^ D)
    (motive_3 := fun es => ∀ M D, maxRangeEntries es ≤ M → compDepthEntries es ≤ D →
      nodeBoundEntries es ≤ sizeEntries es * (M + 1) ^ D)
    (motive_4 := fun p => ∀ M D, maxRange p.1 ≤ M → maxRange p.2 ≤ M →
      compDepth p.1 ≤ D → compDepth p.2 ≤ D →
      nodeBound p.1 ≤ p.1.size * (M + 1) ^ D ∧ nodeBound p.2 ≤ p.2.size * (M + 1) ^ D)
  · -- lit
    intro v M D _ _
    rw [nodeBound, Expr.size, Nat.one_mul]
    exact one_le_pow_succ M D
  · -- ident
    intro n M D _ _
    rw [nodeBound, Expr.size, Nat.one_mul]
    exact one_le_pow_succ M D
  · -- call
    intro f args ih M D hM hD
    rw [maxRange] at hM
    rw [compDepth] at hD
    rw [nodeBound, Expr.size]
    exact node_arith _ _ _ (one_le_pow_succ M D) (ih M D hM hD)
  · -- mcall
    intro f t args iht ih M D hM hD
    rw [maxRange] at hM
    rw [compDepth] at hD
    rw [nodeBound, Expr.size]
    exact node2_arith _ _ _ _ _ (one_le_pow_succ M D) (iht M D (by omega) (by omega))
      (ih M D (by omega) (by omega))
  · -- select
    intro e field test ih M D hM hD
    rw [maxRange] at hM
    rw [compDepth] at hD
    rw [nodeBound, Expr.size]
    exact node_arith _ _ _ (one_le_pow_succ M D) (ih M D hM hD)
  · -- list
    intro es ih M D hM hD
    rw [maxRange] at hM
    rw [compDepth] at hD
    rw [nodeBound, Expr.size]
    exact node_arith _ _ _ (one_le_pow_succ M D) (ih M D hM hD)
  · -- map
    intro es ih M D hM hD
    rw [maxRange] at hM
    rw [compDepth] at hD
    rw [nodeBound, Expr.size]
    exact node_arith _ _ _ (one_le_pow_succ M D) (ih M D hM hD)
  · -- struct
    intro name fields vals ih M D hM hD
    rw [maxRange] at hM
    rw [compDepth] at hD
    rw [nodeBound, Expr.size]
    exact node_arith _ _ _ (one_le_pow_succ M D) (ih M D hM hD)
  · -- comp
    intro iv range av init cond step result ihr ihi ihc ihs ihres M D hM hD
    rw [maxRange] at hM
    rw [compDepth] at hD
    simp only [Nat.max_le] at hM hD
    obtain ⟨hM0, hMr, hMi, hMc, hMs, hMres⟩ := hM
    obtain ⟨⟨hDr, hDi⟩, hDcs, hDres⟩ := hD
    rw [nodeBound, Expr.size]
    cases D with
    | zero => omega
    | succ D' =>
      have hDcs' : compDepth cond ≤ D' ∧ compDepth step ≤ D' := by
        rw [← Nat.max_le]; omega
      have hloop := loop_arith (rangeLen range) M (nodeBound cond) (nodeBound step)
        cond.size step.size ((M + 1) ^ D') hM0
        (ihc M D' hMc hDcs'.1) (ihs M D' hMs hDcs'.2)
      rw [← Nat.pow_succ] at hloop
      exact comp_arith _ _ _ _ _ _ _ _ _ _ (one_le_pow_succ M (D' + 1))
        (ihi M (D' + 1) hMi hDi) (ihr M (D' + 1) hMr hDr) hloop
        (ihres M (D' + 1) hMres hDres)
  · -- unspecified
    intro M D _ _
    rw [nodeBound, Expr.size, Nat.one_mul]
    exact one_le_pow_succ M D
  · -- []
    intro M D _ _
    rw [nodeBoundList, sizeList, Nat.zero_mul]
    exact Nat.le_refl 0
  · -- e :: es
    intro e es ihe ihes M D hM hD
    rw [maxRangeList] at hM
    rw [compDepthList] at hD
    rw [nodeBoundList, sizeList]
    exact add_arith _ _ _ _ _ (ihe M D (by omega) (by omega)) (ihes M D (by omega) (by omega))
  · -- entries []
    intro M D _ _
    rw [nodeBoundEntries, sizeEntries, Nat.zero_mul]
    exact Nat.le_refl 0
  · -- entry :: entries
    rintro ⟨k, v⟩ rest ihkv ihrest M D hM hD
    rw [maxRangeEntries] at hM
    rw [compDepthEntries] at hD
    obtain ⟨hk, hv⟩ := ihkv M D (show maxRange k ≤ M by omega) (show maxRange v ≤ M by omega)
      (show compDepth k ≤ D by omega) (show compDepth v ≤ D by omega)
    dsimp only at hk hv
    rw [nodeBoundEntries, sizeEntries]
    exact add_arith _ _ _ _ _ (add_arith _ _ _ _ _ hk hv) (ihrest M D (by omega) (by omega))
  · -- pair
    intro k v ihk ihv M D hkM hvM hkD hvD
    exact ⟨ihk M D hkM hkD, ihv M D hvM hvD⟩

/-- the bound in the property's words: size of the program times the product of the sizes of the
collections its nested macros range over — here `(maxRange e + 1) ^ compDepth e` — polynomial in the
sizes, never exponential in the nesting depth of calls -/
theorem nodeBound_le_size_times_product (e : Expr) :
    nodeBound e ≤ e.size * (maxRange e + 1) ^ compDepth e :=
  nodeBound_le_gen e _ _ (Nat.le_refl _) (Nat.le_refl _)

/-- hence the number of host-function invocations is bounded the same way -/
theorem host_calls_nested_bound (e : Expr) (h : litRanges e = true) (ctx : Ctx)
    (hl : CtxLinear ctx) (s : St Value) :
    (eval ctx e s).2.log.length - s.log.length ≤ e.size * (maxRange e + 1) ^ compDepth e := by
  have h1 := log_growth_le_steps e ctx s
  have h2 := cost_nested_literal_ranges e h ctx hl s
  have h3 := nodeBound_le_size_times_product e
  omega

/-! non-vacuity: `[1, 2].map(x, [3, 4, 5].map(y, x + y))`-shaped tree: depth 2, ranges 2 and 3 -/
def inner : Expr := .comp "y" (.list [.lit (.int 3), .lit (.int 4), .lit (.int 5)]) "@r" (.list [])
  (.lit (.bool true)) (.call "_+_" [.ident "@r", .list [.call "_+_" [.ident "x", .ident "y"]]]) (.ident "@r")
def outer : Expr := .comp "x" (.list [.lit (.int 1), .lit (.int 2)]) "@r" (.list [])
  (.lit (.bool true)) (.call "_+_" [.ident "@r", .list [inner]]) (.ident "@r")
example : litRanges outer = true ∧ compDepth outer = 2 ∧ maxRange outer = 3 := by decide

end Cel.Props.C07Cost
