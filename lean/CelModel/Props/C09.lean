import CelModel.Eval
import CelModel.Lemmas.CmpLemmas
/-!
# C09 — equality and ordering are coherent and numerically exact across types

`Value.eq` / `Value.partialCmp` mirror `impl PartialEq / PartialOrd for Value` clause for
clause (int/uint vs double through the truncate-then-fraction helper `F64.cmpIntD`).  The
*specification* is `numKey`: the exact value of a number scaled by 2^1074 (every finite double
is an integer multiple of 2^-1074), or ±∞; NaN has no key.  Statements only (to be proved).
-/
namespace Cel.Props.C09
open Cel

/-- the number a numeric value denotes, exactly (scaled by 2^1074); `none` for NaN and for
non-numbers -/
def numKey : Value → Option F64.EInt
  | .int i => some (F64.keyI i)
  | .uint n => some (F64.keyI n)
  | .dbl b => F64.keyD (F64.decode b)
  | _ => none

def isNum : Value → Bool
  | .int _ => true | .uint _ => true | .dbl _ => true | _ => false

/-- int and uint values the implementation can hold -/
def WF : Value → Prop
  | .int i => inI64 i = true
  | .uint n => inU64 n = true
  | _ => True

/-- every decoded double has exponent ≥ -1074 (so the scaled key is an integer) -/
theorem decode_exponent_ge (b : UInt64) (neg : Bool) (m : Nat) (e : Int)
    (h : F64.decode b = .fin neg m e) : -1074 ≤ e :=
  F64.decodeNat_exponent_ge _ _ _ _ h

/-- the implementation-shaped int/double comparison is the exact comparison of the numbers -/
theorem cmpIntD_matches_key (i : Int) (b : UInt64) :
    F64.cmpIntD i (F64.decode b) = (F64.keyD (F64.decode b)).map (fun k => F64.EInt.cmp (F64.keyI i) k) :=
  F64.cmpIntD_matches_key' i b

/-! ### helper lemmas: the order key of a value -/

theorem inI64_iff (i : Int) : inI64 i = true ↔ (-9223372036854775808 ≤ i ∧ i ≤ 9223372036854775807) := by
  unfold inI64 i64Min i64Max; simp
theorem inU64_iff (i : Int) : inU64 i = true ↔ (0 ≤ i ∧ i ≤ 18446744073709551615) := by
  unfold inU64 u64Max; simp

/-- the key under which a value is ordered: numbers by their exact value, the other orderable
kinds by themselves; `none` for NaN and for the kinds without an order -/
inductive OKey where
  | num (k : F64.EInt) | str (s : Str) | bool (b : Bool) | null | dur (n : Int) | ts (n : Int)

def ordKey : Value → Option OKey
  | .int i => some (.num (F64.keyI i))
  | .uint n => some (.num (F64.keyI n))
  | .dbl b => (F64.keyD (F64.decode b)).map .num
  | .str s => some (.str s)
  | .bool b => some (.bool b)
  | .null => some .null
  | .dur n => some (.dur n)
  | .ts n _ => some (.ts n)
  | _ => none

def OKey.cmp : OKey → OKey → Option Ordering
  | .num a, .num b => some (F64.EInt.cmp a b)
  | .str a, .str b => some (cmpStr a b)
  | .bool a, .bool b => some (cmpBool a b)
  | .null, .null => some .eq
  | .dur a, .dur b => some (compare a b)
  | .ts a, .ts b => some (compare a b)
  | _, _ => none

def keyCmp : Option OKey → Option OKey → Option Ordering
  | some x, some y => OKey.cmp x y
  | _, _ => none

theorem keyI_cmp (a b : Int) : F64.EInt.cmp (F64.keyI a) (F64.keyI b) = compare a b := by
  simp only [F64.keyI, F64.EInt.cmp_fin_fin]
  exact F64.icmp_mul_right a b _ F64.twoScale_pos

theorem pc_int_int (a b : Int) :
    Value.partialCmp (.int a) (.int b) = some (F64.EInt.cmp (F64.keyI a) (F64.keyI b)) := by
  rw [keyI_cmp]; rfl
theorem pc_uint_uint (a b : Int) :
    Value.partialCmp (.uint a) (.uint b) = some (F64.EInt.cmp (F64.keyI a) (F64.keyI b)) := by
  rw [keyI_cmp]; rfl
theorem pc_int_uint (a b : Int) (_ha : inI64 a = true) (hb : inU64 b = true) :
    Value.partialCmp (.int a) (.uint b) = some (F64.EInt.cmp (F64.keyI a) (F64.keyI b)) := by
  rw [keyI_cmp]
  rw [inU64_iff] at hb
  simp only [Value.partialCmp, cmpIntUint]
  split
  · rw [F64.icmp_lt (by omega)]
  · rfl
theorem pc_uint_int (a b : Int) (_ha : inU64 a = true) (hb : inI64 b = true) :
    Value.partialCmp (.uint a) (.int b) = some (F64.EInt.cmp (F64.keyI a) (F64.keyI b)) := by
  rw [keyI_cmp]
  rw [inI64_iff] at hb
  simp only [Value.partialCmp, cmpUintInt]
  have h64 : i64Max = 9223372036854775807 := rfl
  by_cases h : a > i64Max
  · rw [if_pos h, F64.icmp_gt (by omega)]
  · rw [if_neg h]
theorem pc_int_dbl (a : Int) (b : UInt64) :
    Value.partialCmp (.int a) (.dbl b) =
      (F64.keyD (F64.decode b)).map (fun k => F64.EInt.cmp (F64.keyI a) k) :=
  cmpIntD_matches_key a b
theorem pc_uint_dbl (a : Int) (b : UInt64) :
    Value.partialCmp (.uint a) (.dbl b) =
      (F64.keyD (F64.decode b)).map (fun k => F64.EInt.cmp (F64.keyI a) k) :=
  cmpIntD_matches_key a b
theorem pc_dbl_int (a : UInt64) (b : Int) :
    Value.partialCmp (.dbl a) (.int b) =
      (F64.keyD (F64.decode a)).map (fun k => F64.EInt.cmp k (F64.keyI b)) := by
  simp only [Value.partialCmp, cmpIntD_matches_key]
  cases F64.keyD (F64.decode a) with
  | none => rfl
  | some k => simp only [Option.map_some, F64.EInt.cmp_swap k (F64.keyI b), rev_rev]
theorem pc_dbl_uint (a : UInt64) (b : Int) :
    Value.partialCmp (.dbl a) (.uint b) =
      (F64.keyD (F64.decode a)).map (fun k => F64.EInt.cmp k (F64.keyI b)) := by
  simp only [Value.partialCmp, cmpIntD_matches_key]
  cases F64.keyD (F64.decode a) with
  | none => rfl
  | some k => simp only [Option.map_some, F64.EInt.cmp_swap k (F64.keyI b), rev_rev]
theorem pc_dbl_dbl (a b : UInt64) :
    Value.partialCmp (.dbl a) (.dbl b) =
      match F64.keyD (F64.decode a), F64.keyD (F64.decode b) with
      | some x, some y => some (F64.EInt.cmp x y)
      | _, _ => none := rfl

/-- `partialCmp` is the comparison of order keys -/
theorem partialCmp_eq_keyCmp (a b : Value) (ha : WF a) (hb : WF b) :
    Value.partialCmp a b = keyCmp (ordKey a) (ordKey b) := by
  cases a <;> cases b <;>
    first
    | rfl
    | exact pc_int_int _ _
    | exact pc_uint_uint _ _
    | exact pc_int_uint _ _ ha hb
    | exact pc_uint_int _ _ ha hb
    | (simp only [ordKey, pc_int_dbl, pc_uint_dbl, pc_dbl_int, pc_dbl_uint, pc_dbl_dbl]
       cases F64.keyD (F64.decode _) <;> rfl)
    | (simp only [ordKey, pc_dbl_dbl]
       cases F64.keyD (F64.decode _) <;> cases F64.keyD (F64.decode _) <;> rfl)

/-! ### order laws on keys -/

theorem OKey.cmp_swap (x y : OKey) : OKey.cmp y x = (OKey.cmp x y).map Ordering.rev := by
  cases x <;> cases y <;>
    first
    | rfl
    | exact congrArg some (F64.EInt.cmp_swap _ _)
    | exact congrArg some (cmpStr_swap _ _)
    | exact congrArg some (cmpBool_swap _ _)
    | exact congrArg some (icmp_swap _ _)

theorem keyCmp_swap (x y : Option OKey) : keyCmp y x = (keyCmp x y).map Ordering.rev := by
  cases x <;> cases y <;> first | rfl | exact OKey.cmp_swap _ _

theorem OKey.cmp_trans (x y z : OKey) (o : Ordering) (h1 : OKey.cmp x y = some o)
    (h2 : OKey.cmp y z = some o) : OKey.cmp x z = some o := by
  cases x <;> cases y <;> simp only [OKey.cmp, reduceCtorEq, Option.some.injEq] at h1 <;>
    cases z <;> simp only [OKey.cmp, reduceCtorEq, Option.some.injEq] at h2 <;>
    first
    | exact congrArg some (F64.EInt.cmp_trans _ _ _ _ h1 h2)
    | exact congrArg some (cmpStr_trans _ _ _ _ h1 h2)
    | exact congrArg some (cmpBool_trans _ _ _ _ h1 h2)
    | exact congrArg some (icmp_trans _ _ _ _ h1 h2)
    | exact congrArg some h1

theorem OKey.cmp_trans_eq_left (x y z : OKey) (o : Ordering) (h1 : OKey.cmp x y = some .eq)
    (h2 : OKey.cmp y z = some o) : OKey.cmp x z = some o := by
  cases x <;> cases y <;> simp only [OKey.cmp, reduceCtorEq, Option.some.injEq] at h1 <;>
    cases z <;> simp only [OKey.cmp, reduceCtorEq, Option.some.injEq] at h2 <;>
    first
    | exact congrArg some (F64.EInt.cmp_trans_eq_left _ _ _ _ h1 h2)
    | exact congrArg some (cmpStr_trans_eq_left _ _ _ _ h1 h2)
    | exact congrArg some (cmpBool_trans_eq_left _ _ _ _ h1 h2)
    | exact congrArg some (icmp_trans_eq_left _ _ _ _ h1 h2)
    | exact congrArg some h2

theorem keyCmp_trans (x y z : Option OKey) (o : Ordering) (h1 : keyCmp x y = some o)
    (h2 : keyCmp y z = some o) : keyCmp x z = some o := by
  cases x <;> cases y <;> simp only [keyCmp, reduceCtorEq] at h1 <;>
    cases z <;> simp only [keyCmp, reduceCtorEq] at h2
  exact OKey.cmp_trans _ _ _ _ h1 h2

theorem keyCmp_trans_eq_left (x y z : Option OKey) (o : Ordering) (h1 : keyCmp x y = some .eq)
    (h2 : keyCmp y z = some o) : keyCmp x z = some o := by
  cases x <;> cases y <;> simp only [keyCmp, reduceCtorEq] at h1 <;>
    cases z <;> simp only [keyCmp, reduceCtorEq] at h2
  exact OKey.cmp_trans_eq_left _ _ _ _ h1 h2

theorem ordKey_of_numKey (a : Value) (k : F64.EInt) (h : numKey a = some k) :
    ordKey a = some (.num k) := by
  cases a <;> simp only [numKey, reduceCtorEq, Option.some.injEq] at h <;>
    first
    | (subst h; rfl)
    | (simp only [ordKey, h]; rfl)

/-! ### equality agrees with the order wherever the order is defined -/

theorem eq_of_cmp_aux {x : Bool} {c o : Ordering} (h : some c = some o) (hx : x = (c == .eq)) :
    x = (o == .eq) := by cases h; exact hx

theorem map_rev_aux (x : Option Ordering) (o : Ordering) (h : x.map Ordering.rev = some o) :
    (x == some .eq) = (o == .eq) := by
  cases x with
  | none => cases h
  | some c =>
    simp only [Option.map_some, Option.some.injEq] at h
    subst h
    cases c <;> rfl

theorem beq_intUint (a b : Int) (hb : inU64 b = true) : (a == b) = (cmpIntUint a b == .eq) := by
  rw [inU64_iff] at hb
  unfold cmpIntUint
  by_cases h : a < 0
  · rw [if_pos h]
    have : a ≠ b := by omega
    simp [this]
  · rw [if_neg h]; exact ibeq_eq_cmp a b

theorem beq_uintInt (a b : Int) (hb : inI64 b = true) : (a == b) = (cmpUintInt a b == .eq) := by
  rw [inI64_iff] at hb
  unfold cmpUintInt
  have h64 : i64Max = 9223372036854775807 := rfl
  by_cases h : a > i64Max
  · rw [if_pos h]
    have : a ≠ b := by omega
    simp [this]
  · rw [if_neg h]; exact ibeq_eq_cmp a b

theorem eq_of_cmp (a b : Value) (ha : WF a) (hb : WF b) (o : Ordering)
    (h : Value.partialCmp a b = some o) : Value.eq a b = (o == .eq) := by
  cases a <;> cases b <;>
    first
    | (cases h; done)
    | exact eq_of_cmp_aux h (by simp only [Value.eq]; exact ibeq_eq_cmp _ _)
    | exact eq_of_cmp_aux h (by simp only [Value.eq]; exact sbeq_eq_cmp _ _)
    | exact eq_of_cmp_aux h (by simp only [Value.eq]; exact bbeq_eq_cmp _ _)
    | exact eq_of_cmp_aux h (by simp only [Value.eq]; rfl)
    | exact eq_of_cmp_aux h (by simp only [Value.eq]; exact beq_intUint _ _ hb)
    | exact eq_of_cmp_aux h (by simp only [Value.eq]; exact beq_uintInt _ _ hb)
    | (simp only [Value.eq]; simp only [Value.partialCmp] at h; rw [h]; exact some_beq_some_eq o)
    | (simp only [Value.eq]; exact map_rev_aux _ _ h)

/-- numbers compare as the numbers they denote, across int, uint and double -/
theorem cmp_matches_key (a b : Value) (ha : WF a) (hb : WF b) (ka kb : F64.EInt)
    (hka : numKey a = some ka) (hkb : numKey b = some kb) :
    Value.partialCmp a b = some (F64.EInt.cmp ka kb) := by
  rw [partialCmp_eq_keyCmp a b ha hb, ordKey_of_numKey a ka hka, ordKey_of_numKey b kb hkb]
  rfl

/-- … and are equal exactly when they denote the same number -/
theorem eq_matches_key (a b : Value) (ha : WF a) (hb : WF b) (ka kb : F64.EInt)
    (hka : numKey a = some ka) (hkb : numKey b = some kb) :
    Value.eq a b = (F64.EInt.cmp ka kb == .eq) :=
  eq_of_cmp a b ha hb _ (cmp_matches_key a b ha hb ka kb hka hkb)

theorem cmpDD_none_left (x y : F64.D) (h : F64.keyD x = none) : F64.cmpDD x y = none := by
  simp only [F64.cmpDD, h]
theorem cmpDD_none_right (x y : F64.D) (h : F64.keyD y = none) : F64.cmpDD x y = none := by
  simp only [F64.cmpDD, h]
  cases F64.keyD x <;> rfl
theorem cmpIntD_none (i : Int) (b : UInt64) (h : F64.keyD (F64.decode b) = none) :
    F64.cmpIntD i (F64.decode b) = none := by
  rw [cmpIntD_matches_key, h]; rfl

/-- NaN is unordered with and unequal to every number (itself included) -/
theorem nan_unordered_unequal (a b : Value) (ha : isNum a = true) (hb : isNum b = true)
    (hnan : numKey a = none ∨ numKey b = none) :
    Value.partialCmp a b = none ∧ Value.eq a b = false := by
  cases a <;> simp only [isNum, reduceCtorEq] at ha <;>
    cases b <;> simp only [isNum, reduceCtorEq] at hb <;>
    simp only [numKey, reduceCtorEq, or_self, or_false, false_or] at hnan <;>
    simp only [Value.partialCmp, Value.eq]
  · rw [cmpIntD_none _ _ hnan]; exact ⟨rfl, rfl⟩
  · rw [cmpIntD_none _ _ hnan]; exact ⟨rfl, rfl⟩
  · rw [cmpIntD_none _ _ hnan]; exact ⟨rfl, rfl⟩
  · rw [cmpIntD_none _ _ hnan]; exact ⟨rfl, rfl⟩
  · rcases hnan with h | h
    · rw [cmpDD_none_left _ _ h]; exact ⟨rfl, rfl⟩
    · rw [cmpDD_none_right _ _ h]; exact ⟨rfl, rfl⟩

/-- `a != b` is the negation of `a == b` (operator level) -/
theorem ne_is_not_eq (a b : Value) :
    applyBin .ne a b = .ok (.bool (!Value.eq a b)) ∧ applyBin .eq a b = .ok (.bool (Value.eq a b)) :=
  ⟨rfl, rfl⟩

/-- wherever `<` is defined exactly one of a<b, a==b, a>b holds, `<=` is `<` or `==`,
`>=` is `>` or `==` -/
theorem trichotomy (a b : Value) (ha : WF a) (hb : WF b) (o : Ordering)
    (h : Value.partialCmp a b = some o) :
    relOp .lt a b = .ok (.bool (o == .lt)) ∧
    relOp .gt a b = .ok (.bool (o == .gt)) ∧
    relOp .le a b = .ok (.bool (o == .lt || o == .eq)) ∧
    relOp .ge a b = .ok (.bool (o == .gt || o == .eq)) ∧
    Value.eq a b = (o == .eq) := by
  refine ⟨?_, ?_, ?_, ?_, eq_of_cmp a b ha hb o h⟩ <;> simp only [relOp, h] <;> cases o <;> rfl

/-- where the order is undefined all four ordering operators fail alike -/
theorem unordered_all_fail (a b : Value) (h : Value.partialCmp a b = none) :
    relOp .lt a b = .err .notcomparable ∧ relOp .le a b = .err .notcomparable ∧
    relOp .gt a b = .err .notcomparable ∧ relOp .ge a b = .err .notcomparable := by
  simp only [relOp, h, and_self]

/-- `a < b` iff `b > a` -/
theorem cmp_swap (a b : Value) (ha : WF a) (hb : WF b) :
    Value.partialCmp b a = (Value.partialCmp a b).map Ordering.rev := by
  rw [partialCmp_eq_keyCmp b a hb ha, partialCmp_eq_keyCmp a b ha hb]
  exact keyCmp_swap _ _

/-- the order is transitive (through `<` and `==` alike), across numeric kinds too -/
theorem cmp_trans (a b c : Value) (ha : WF a) (hb : WF b) (hc : WF c) (o : Ordering)
    (h1 : Value.partialCmp a b = some o) (h2 : Value.partialCmp b c = some o) :
    Value.partialCmp a c = some o := by
  rw [partialCmp_eq_keyCmp _ _ ha hb] at h1
  rw [partialCmp_eq_keyCmp _ _ hb hc] at h2
  rw [partialCmp_eq_keyCmp _ _ ha hc]
  exact keyCmp_trans _ _ _ _ h1 h2

theorem cmp_trans_eq_left (a b c : Value) (ha : WF a) (hb : WF b) (hc : WF c) (o : Ordering)
    (h1 : Value.partialCmp a b = some .eq) (h2 : Value.partialCmp b c = some o) :
    Value.partialCmp a c = some o := by
  rw [partialCmp_eq_keyCmp _ _ ha hb] at h1
  rw [partialCmp_eq_keyCmp _ _ hb hc] at h2
  rw [partialCmp_eq_keyCmp _ _ ha hc]
  exact keyCmp_trans_eq_left _ _ _ _ h1 h2

theorem cmpStr_append_left (p a b : Str) : cmpStr (p ++ a) (p ++ b) = cmpStr a b := by
  induction p with
  | nil => rfl
  | cons c p ih => rw [List.cons_append, List.cons_append, cmpStr_cons_eq _ _ rfl]; exact ih

theorem cmpStr_lt_witness (a : Str) : ∀ b : Str, cmpStr a b = .lt →
    ∃ (p : List Char) (x y : Char) (r s : List Char),
      (a = p ∧ b = p ++ y :: s) ∨ (a = p ++ x :: r ∧ b = p ++ y :: s ∧ x.toNat < y.toNat) := by
  induction a with
  | nil =>
    intro b h
    cases b with
    | nil => simp [cmpStr] at h
    | cons y s => exact ⟨[], y, y, [], s, Or.inl ⟨rfl, rfl⟩⟩
  | cons x xs ih =>
    intro b h
    cases b with
    | nil => simp [cmpStr] at h
    | cons y ys =>
      rcases Nat.lt_trichotomy x.toNat y.toNat with p | p | p
      · exact ⟨[], x, y, xs, ys, Or.inr ⟨rfl, rfl, p⟩⟩
      · rw [cmpStr_cons_eq _ _ p] at h
        have hxy := char_toNat_inj p
        subst hxy
        obtain ⟨p', x', y', r, s, hh⟩ := ih ys h
        refine ⟨x :: p', x', y', r, s, ?_⟩
        rcases hh with ⟨h1, h2⟩ | ⟨h1, h2, h3⟩
        · left; exact ⟨by rw [h1], by rw [h2]; rfl⟩
        · right; exact ⟨by rw [h1]; rfl, by rw [h2]; rfl, h3⟩
      · rw [cmpStr_cons_gt _ _ p] at h; cases h

/-- strings compare by code point, lexicographically -/
theorem string_cmp_is_codepoint_lex (a b : Str) :
    Value.partialCmp (.str a) (.str b) = some (cmpStr a b) ∧
    (cmpStr a b = .eq ↔ a = b) ∧
    (cmpStr a b = .lt ↔ ∃ (p : List Char) (x y : Char) (r s : List Char),
        (a = p ∧ b = p ++ y :: s) ∨ (a = p ++ x :: r ∧ b = p ++ y :: s ∧ x.toNat < y.toNat)) := by
  refine ⟨rfl, cmpStr_eq_iff a b, cmpStr_lt_witness a b, ?_⟩
  rintro ⟨p, x, y, r, s, ⟨h1, h2⟩ | ⟨h1, h2, h3⟩⟩
  · subst h1 h2
    have h := cmpStr_append_left a [] (y :: s)
    rw [List.append_nil] at h
    rw [h]; rfl
  · subst h1 h2
    rw [cmpStr_append_left]
    exact cmpStr_cons_lt _ _ h3

theorem eqList_eq (a : List Value) : ∀ b : List Value,
    eqList a b = (a.length == b.length && (List.zipWith Value.eq a b).all id) := by
  induction a with
  | nil => intro b; cases b <;> simp [eqList]
  | cons x xs ih =>
    intro b
    cases b with
    | nil => simp [eqList]
    | cons y ys =>
      have hl : (xs.length + 1 == ys.length + 1) = (xs.length == ys.length) := by simp
      simp only [eqList, ih ys, List.length_cons, List.zipWith_cons_cons, List.all_cons, id, hl]
      exact Bool.and_left_comm _ _ _

theorem eqEntries_eq (b : MapV) (a : List (Key × Value)) :
    eqEntries a b = a.all (fun kv => match MapV.find? b kv.1 with
          | some v' => Value.eq kv.2 v'
          | none => false) := by
  induction a with
  | nil => simp [eqEntries]
  | cons kv rest ih =>
    obtain ⟨k, v⟩ := kv
    simp only [eqEntries, List.all_cons, ih]
    rfl

/-- lists are equal exactly when they have the same length and equal elements position-wise -/
theorem list_eq_iff_elementwise (a b : List Value) :
    Value.eq (.list a) (.list b) =
      (a.length == b.length && (List.zipWith Value.eq a b).all id) := by
  simp only [Value.eq]
  exact eqList_eq a b

/-- maps are equal exactly when they have the same number of entries and every entry of the
one is present in the other under the same typed key with an equal value -/
theorem map_eq_iff_same_entries (a b : MapV) :
    Value.eq (.map a) (.map b) =
      (a.length == b.length &&
        a.all (fun kv => match MapV.find? b kv.1 with
          | some v' => Value.eq kv.2 v'
          | none => false)) := by
  simp only [Value.eq, eqEntries_eq]

/-- the kinds of value among which equality / ordering can hold -/
def kind : Value → Nat
  | .int _ => 0 | .uint _ => 0 | .dbl _ => 0
  | .str _ => 1 | .bytes _ => 2 | .bool _ => 3 | .null => 4 | .list _ => 5 | .map _ => 6
  | .dur _ => 7 | .ts .. => 8 | .fn .. => 9

/-- values of unrelated types are unequal and not orderable -/
theorem unrelated_types_unequal_unordered (a b : Value) (h : kind a ≠ kind b) :
    Value.eq a b = false ∧ Value.partialCmp a b = none := by
  cases a <;> cases b <;>
    first
    | exact absurd rfl h
    | exact ⟨by simp only [Value.eq], rfl⟩

def isScalar : Value → Bool
  | .list _ => false | .map _ => false | .fn .. => false | _ => true

theorem cmpDD_beq_comm (x y : F64.D) :
    (F64.cmpDD x y == some .eq) = (F64.cmpDD y x == some .eq) := by
  unfold F64.cmpDD
  cases F64.keyD x <;> cases F64.keyD y <;> try rfl
  rename_i kx ky
  simp only [some_beq_some_eq, F64.EInt.cmp_swap kx ky, rev_beq_eq]

/-- equality is symmetric (scalars; containers inherit it element-wise, maps need the
distinct-keys invariant of `HashMap`, which the association-list model does not enforce) -/
theorem eq_symm (a b : Value) (ha : WF a) (hb : WF b) (sa : isScalar a = true) (sb : isScalar b = true) :
    Value.eq a b = Value.eq b a := by
  cases a <;> simp only [isScalar, reduceCtorEq] at sa <;>
    cases b <;> simp only [isScalar, reduceCtorEq] at sb <;>
    simp only [Value.eq] <;>
    first
    | rfl
    | exact BEq.comm
    | exact cmpDD_beq_comm _ _

/-- lists of scalars: symmetric too -/
theorem eq_symm_scalar_lists (a b : List Value) (ha : ∀ x ∈ a, WF x ∧ isScalar x = true)
    (hb : ∀ x ∈ b, WF x ∧ isScalar x = true) :
    Value.eq (.list a) (.list b) = Value.eq (.list b) (.list a) := by
  simp only [Value.eq]
  induction a generalizing b with
  | nil => cases b <;> simp [eqList]
  | cons x xs ih =>
    cases b with
    | nil => simp [eqList]
    | cons y ys =>
      simp only [eqList]
      have hx := ha x List.mem_cons_self
      have hy := hb y List.mem_cons_self
      rw [eq_symm x y hx.1 hy.1 hx.2 hy.2]
      rw [ih ys (fun z hz => ha z (List.mem_cons_of_mem _ hz))
        (fun z hz => hb z (List.mem_cons_of_mem _ hz))]

/-! ### the extremum fold -/

theorem pcmp_refl (m : Value) (hm : WF m) (h : (Value.partialCmp m m).isSome) :
    Value.partialCmp m m = some .eq := by
  have hs := cmp_swap m m hm hm
  cases hc : Value.partialCmp m m with
  | none => rw [hc] at h; cases h
  | some o =>
    rw [hc] at hs
    cases o <;> first | rfl | (simp at hs)

theorem cmp_trans_eq_right (a b c : Value) (ha : WF a) (hb : WF b) (hc : WF c) (o : Ordering)
    (h1 : Value.partialCmp a b = some o) (h2 : Value.partialCmp b c = some .eq) :
    Value.partialCmp a c = some o := by
  have h2' : Value.partialCmp c b = some .eq := by rw [cmp_swap b c hb hc, h2]; rfl
  have h1' : Value.partialCmp b a = some (Ordering.rev o) := by rw [cmp_swap a b ha hb, h1]; rfl
  have h3 := cmp_trans_eq_left c b a hc hb ha _ h2' h1'
  rw [cmp_swap c a hc ha, h3]
  simp only [Option.map_some, rev_rev]

/-- `m` is at least (`wg`) / at most (`¬ wg`) `y` -/
def good (wg : Bool) (m y : Value) : Prop :=
  ∃ o, Value.partialCmp m y = some o ∧ (if wg then o ≠ .lt else o ≠ .gt)

theorem good_trans (wg : Bool) (a b c : Value) (ha : WF a) (hb : WF b) (hc : WF c)
    (g1 : good wg a b) (g2 : good wg b c) : good wg a c := by
  obtain ⟨o1, h1, c1⟩ := g1
  obtain ⟨o2, h2, c2⟩ := g2
  cases o1
  · cases o2
    · exact ⟨_, cmp_trans a b c ha hb hc _ h1 h2, c1⟩
    · exact ⟨_, cmp_trans_eq_right a b c ha hb hc _ h1 h2, c1⟩
    · cases wg <;> simp at c1 c2
  · exact ⟨_, cmp_trans_eq_left a b c ha hb hc _ h1 h2, c2⟩
  · cases o2
    · cases wg <;> simp at c1 c2
    · exact ⟨_, cmp_trans_eq_right a b c ha hb hc _ h1 h2, c1⟩
    · exact ⟨_, cmp_trans a b c ha hb hc _ h1 h2, c1⟩

theorem extremum_aux (wg : Bool) : ∀ (xs : List Value) (acc : Value),
    (∀ y ∈ acc :: xs, WF y) →
    (∀ y ∈ acc :: xs, ∀ z ∈ acc :: xs, (Value.partialCmp y z).isSome) →
    ∀ m, extremumFold wg acc xs = .ok m → m ∈ acc :: xs ∧ ∀ y ∈ acc :: xs, good wg m y
  | [], acc, hwf, hcmp, m, h => by
    simp only [extremumFold, Outcome.ok.injEq] at h
    subst h
    refine ⟨List.mem_cons_self, ?_⟩
    intro y hy
    simp only [List.mem_cons, List.not_mem_nil, or_false] at hy
    subst hy
    refine ⟨.eq, pcmp_refl _ (hwf _ List.mem_cons_self)
      (hcmp _ List.mem_cons_self _ List.mem_cons_self), ?_⟩
    cases wg <;> simp
  | x :: xs, acc, hwf, hcmp, m, h => by
    have hacc : acc ∈ acc :: x :: xs := List.mem_cons_self
    have hx : x ∈ acc :: x :: xs := List.mem_cons_of_mem _ List.mem_cons_self
    have hsome := hcmp acc hacc x hx
    cases hc : Value.partialCmp acc x with
    | none => rw [hc] at hsome; cases hsome
    | some o =>
      simp only [extremumFold, hc] at h
      by_cases hk : (if wg = true then o == .gt else o == .lt) = true
      · rw [if_pos hk] at h
        have sub : ∀ y, y ∈ acc :: xs → y ∈ acc :: x :: xs := by
          intro y hy
          simp only [List.mem_cons] at hy ⊢
          rcases hy with hy | hy
          · exact Or.inl hy
          · exact Or.inr (Or.inr hy)
        have ih := extremum_aux wg xs acc (fun y hy => hwf y (sub y hy))
          (fun y hy z hz => hcmp y (sub y hy) z (sub z hz)) m h
        have gax : good wg acc x := ⟨o, hc, by cases wg <;> cases o <;> simp at hk ⊢⟩
        refine ⟨sub m ih.1, ?_⟩
        intro y hy
        simp only [List.mem_cons] at hy
        rcases hy with hy | hy | hy
        · subst hy; exact ih.2 _ List.mem_cons_self
        · subst hy
          exact good_trans wg m acc y (hwf m (sub m ih.1)) (hwf acc hacc) (hwf y hx)
            (ih.2 _ List.mem_cons_self) gax
        · exact ih.2 y (List.mem_cons_of_mem _ hy)
      · rw [if_neg hk] at h
        have sub : ∀ y, y ∈ x :: xs → y ∈ acc :: x :: xs := fun y hy => List.mem_cons_of_mem _ hy
        have ih := extremum_aux wg xs x (fun y hy => hwf y (sub y hy))
          (fun y hy z hz => hcmp y (sub y hy) z (sub z hz)) m h
        have gxa : good wg x acc :=
          ⟨Ordering.rev o, by rw [cmp_swap acc x (hwf acc hacc) (hwf x hx), hc]; rfl,
            by cases wg <;> cases o <;> simp at hk ⊢⟩
        refine ⟨sub m ih.1, ?_⟩
        intro y hy
        simp only [List.mem_cons] at hy
        rcases hy with hy | hy | hy
        · subst hy
          exact good_trans wg m x y (hwf m (sub m ih.1)) (hwf x hx) (hwf y hacc)
            (ih.2 _ List.mem_cons_self) gxa
        · subst hy; exact ih.2 _ List.mem_cons_self
        · exact ih.2 y (List.mem_cons_of_mem _ hy)

/-- `max` / `min` of a non-empty collection of mutually comparable values return one of those
values that bounds all the others -/
theorem extremum_is_member_and_bound (wantGreater : Bool) (x : Value) (xs : List Value)
    (hwf : ∀ y ∈ x :: xs, WF y)
    (hcmp : ∀ y ∈ x :: xs, ∀ z ∈ x :: xs, (Value.partialCmp y z).isSome)
    (m : Value) (h : extremumFold wantGreater x xs = .ok m) :
    m ∈ x :: xs ∧
    ∀ y ∈ x :: xs, ∃ o, Value.partialCmp m y = some o ∧
      (if wantGreater then o ≠ .lt else o ≠ .gt) :=
  extremum_aux wantGreater xs x hwf hcmp m h

/-- on mutually comparable values the fold never fails -/
theorem extremum_defined (wantGreater : Bool) (x : Value) (xs : List Value)
    (hcmp : ∀ y ∈ x :: xs, ∀ z ∈ x :: xs, (Value.partialCmp y z).isSome) :
    ∃ m, extremumFold wantGreater x xs = .ok m := by
  induction xs generalizing x with
  | nil => exact ⟨x, rfl⟩
  | cons y ys ih =>
    have hx : x ∈ x :: y :: ys := List.mem_cons_self
    have hy : y ∈ x :: y :: ys := List.mem_cons_of_mem _ List.mem_cons_self
    have hsome := hcmp x hx y hy
    cases hc : Value.partialCmp x y with
    | none => rw [hc] at hsome; cases hsome
    | some o =>
      simp only [extremumFold, hc]
      have key : ∀ a', (a' = x ∨ a' = y) → ∃ m, extremumFold wantGreater a' ys = .ok m := by
        intro a' ha'
        apply ih
        intro a ha b hb
        have sub : ∀ z, z ∈ a' :: ys → z ∈ x :: y :: ys := by
          intro z hz
          simp only [List.mem_cons] at hz ⊢
          rcases hz with hz | hz
          · rcases ha' with h | h
            · subst h; exact Or.inl hz
            · subst h; exact Or.inr (Or.inl hz)
          · exact Or.inr (Or.inr hz)
        exact hcmp a (sub a ha) b (sub b hb)
      apply key
      generalize (if wantGreater = true then o == Ordering.gt else o == Ordering.lt) = k
      cases k <;> simp

end Cel.Props.C09
