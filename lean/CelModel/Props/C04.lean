import CelModel.Parser
import CelModel.Props.C13
import CelModel.Lemmas.ParserSteps
import CelModel.Lemmas.ParserCalls
/-!
# C04 — parsing preserves precedence, associativity and grouping

About the parser model `Parser.parseTop` (the grammar of `CEL.g4` + the visitor of
`parser.rs`; tied to the real ANTLR parser by the correspondence check).
All statements are proved; the one-step unfolding rules of the parser functions and the
precedence-level lifting lemmas are in `CelModel/Lemmas/ParserSteps.lean`.
-/
namespace Cel.Props.C04
open Cel Cel.Lexer Cel.Parser Cel.Lemmas.ParserSteps Cel.Lemmas.ParserCalls

/-! ## chains of `&&` / `||` keep their operands in source order -/

/-- the operands of a (re-associated) chain of `op`, left to right -/
def leaves (op : String) : (fuel : Nat) → Expr → List Expr
  | 0, e => [e]
  | fuel + 1, .call f [a, b] => if f == op then leaves op fuel a ++ leaves op fuel b else [.call f [a, b]]
  | _, e => [e]

/-- not itself an application of `op` (so that `leaves` does not look inside it) -/
def notOp (op : String) : Expr → Bool
  | .call f [_, _] => !(f == op)
  | _ => true

theorem leaves_notOp (op : String) (k : Nat) (t : Expr) (h : notOp op t = true) : leaves op k t = [t] := by
  cases k with
  | zero => simp [leaves]
  | succ k =>
    unfold leaves
    split <;> simp_all [notOp]

theorem leaves_node (op : String) (k : Nat) (a b : Expr) :
    leaves op (k + 1) (.call op [a, b]) = leaves op k a ++ leaves op k b := by
  simp [leaves]

theorem seg_one (terms : List Expr) (i : Nat) (h : i < terms.length) :
    (terms.drop i).take 1 = [terms.toArray[i]!] := by
  simp [h, List.take_one]

theorem balancedTree_succ (op : String) (arr : Array Expr) (fuel lo hi : Nat) :
  balancedTree op arr (fuel + 1) lo hi =
    .call op [if (lo + hi + 1) / 2 == lo then arr[(lo + hi + 1) / 2]! else balancedTree op arr fuel lo ((lo + hi + 1) / 2 - 1),
      if (lo + hi + 1) / 2 == hi then arr[(lo + hi + 1) / 2 + 1]! else balancedTree op arr fuel ((lo + hi + 1) / 2 + 1) hi] := by
  rw [balancedTree]

theorem seg_append (terms : List Expr) (lo a b : Nat) :
    (terms.drop lo).take a ++ (terms.drop (lo + a)).take b = (terms.drop lo).take (a + b) := by
  rw [List.take_add, List.drop_drop]

theorem bt_leaves (op : String) (terms : List Expr) (hno : ∀ t ∈ terms, notOp op t = true) :
    ∀ d lo hi fuel k, hi - lo = d → lo ≤ hi → hi + 1 < terms.length → d + 1 ≤ fuel → d + 1 ≤ k →
      leaves op k (balancedTree op terms.toArray fuel lo hi) = (terms.drop lo).take (d + 2) := by
  intro d
  induction d using Nat.strongRecOn with
  | _ d ih =>
    intro lo hi fuel k hd hle hlen hfuel hk
    obtain ⟨f, rfl⟩ : ∃ f, fuel = f + 1 := ⟨fuel - 1, by omega⟩
    obtain ⟨k', rfl⟩ : ∃ k', k = k' + 1 := ⟨k - 1, by omega⟩
    rw [balancedTree_succ, leaves_node]
    have hleaf : ∀ i, i < terms.length → ∀ j, leaves op j terms.toArray[i]! = (terms.drop i).take 1 := by
      intro i hi j
      rw [seg_one _ _ hi]
      apply leaves_notOp
      apply hno
      simp [hi]
    by_cases h1 : hi = lo
    · subst h1
      have hm : (hi + hi + 1) / 2 = hi := by omega
      simp only [hm, beq_self_eq_true, if_true]
      rw [hleaf _ (by omega), hleaf _ (by omega)]
      have : d = 0 := by omega
      subst this
      exact seg_append terms hi 1 1
    · have hm1 : ((lo + hi + 1) / 2 == lo) = false := by simp; omega
      simp only [hm1, Bool.false_eq_true, if_false]
      have hL := ih ((lo + hi + 1) / 2 - 1 - lo) (by omega) lo ((lo + hi + 1) / 2 - 1) f k' rfl
        (by omega) (by omega) (by omega) (by omega)
      rw [hL]
      by_cases h2 : (lo + hi + 1) / 2 = hi
      · simp only [h2, beq_self_eq_true, if_true]
        rw [hleaf _ (by omega)]
        have := seg_append terms lo (hi - 1 - lo + 2) 1
        have e1 : lo + (hi - 1 - lo + 2) = hi + 1 := by omega
        have e2 : hi - 1 - lo + 2 + 1 = d + 2 := by omega
        rw [e1, e2] at this
        exact this
      · have hm2 : ((lo + hi + 1) / 2 == hi) = false := by simp; omega
        simp only [hm2, Bool.false_eq_true, if_false]
        have hR := ih (hi - ((lo + hi + 1) / 2 + 1)) (by omega) ((lo + hi + 1) / 2 + 1) hi f k' rfl
          (by omega) (by omega) (by omega) (by omega)
        rw [hR]
        have := seg_append terms lo ((lo + hi + 1) / 2 - 1 - lo + 2) (hi - ((lo + hi + 1) / 2 + 1) + 2)
        have e1 : lo + ((lo + hi + 1) / 2 - 1 - lo + 2) = (lo + hi + 1) / 2 + 1 := by omega
        have e2 : ((lo + hi + 1) / 2 - 1 - lo + 2) + (hi - ((lo + hi + 1) / 2 + 1) + 2) = d + 2 := by omega
        rw [e1, e2] at this
        exact this

/-- for every chain length: the balanced tree the parser builds lists exactly the operands
written, in source order, and every internal node is the operator -/
theorem balanced_tree_inorder (op : String) (terms : List Expr) (hne : terms ≠ [])
    (hno : ∀ t ∈ terms, notOp op t = true) :
    leaves op (terms.length + 1) (logicExpr op terms) = terms := by
  match terms, hne, hno with
  | [t], _, hno =>
    simp only [logicExpr]
    exact leaves_notOp _ _ _ (hno t (by simp))
  | a :: b :: r, _, hno =>
    simp only [logicExpr]
    have := bt_leaves op (a :: b :: r) hno ((a :: b :: r).length - 2) 0 ((a :: b :: r).length - 2)
      ((a :: b :: r).length + 1) ((a :: b :: r).length + 1) (by omega) (by omega)
      (by simp) (by simp) (by simp)
    rw [this]
    simp

/-! ## prefix operators: an even run cancels, an odd run applies once -/

theorem prefix_not_parity (fuel n : Nat) (hn : 0 < n) (rest : Toks)
    (hrest : runLen "!" rest = 0) :
    parseUnary (fuel + 1) (List.replicate n (.sym "!") ++ rest) =
      (match parseMember fuel rest with
       | some (m, r) => some (if n % 2 == 0 then m else .call "!_" [m], r)
       | none => none) := by
  rw [parseUnary_succ]
  simp only [runLen_replicate, hrest, Nat.add_zero, hn, if_true, drop_replicate_append, gt_iff_lt]
  rfl

theorem prefix_neg_parity (fuel n : Nat) (hn : 1 < n) (rest : Toks)
    (hrest : runLen "-" rest = 0) :
    parseUnary (fuel + 1) (List.replicate n (.sym "-") ++ rest) =
      (match parseMember fuel rest with
       | some (m, r) => some (if n % 2 == 0 then m else .call "-_" [m], r)
       | none => none) := by
  rw [parseUnary_succ]
  have h0 : runLen "!" (List.replicate n (.sym "-") ++ rest) = 0 :=
    runLen_other _ _ (by decide) n (by omega) rest
  have hn1 : (n == 1) = false := by simp; omega
  have hn0 : 0 < n := by omega
  simp only [runLen_replicate, hrest, Nat.add_zero, h0, drop_replicate_append, gt_iff_lt, Nat.lt_irrefl,
    if_false, hn0, if_true, hn1, Bool.false_and, Bool.false_eq_true]
  rfl

/-- a single `-` directly before an int literal is that literal's sign -/
theorem single_minus_before_int_is_sign (fuel : Nat) (t : Str) (rest : Toks) :
    parseUnary (fuel + 1) (.sym "-" :: .int t :: rest) = parseMember fuel (.sym "-" :: .int t :: rest) := by
  rw [parseUnary_succ]
  simp [runLen]

/-! ## a macro call expands around, never into, its receiver and argument expressions -/

/-- `sub` occurs in `e` as an intact subterm -/
inductive Occurs (sub : Expr) : Expr → Prop
  | here : Occurs sub sub
  | callArg (f : String) (args : List Expr) (a : Expr) : a ∈ args → Occurs sub a → Occurs sub (.call f args)
  | mcallTarget (f : String) (t : Expr) (args : List Expr) : Occurs sub t → Occurs sub (.mcall f t args)
  | mcallArg (f : String) (t : Expr) (args : List Expr) (a : Expr) : a ∈ args → Occurs sub a → Occurs sub (.mcall f t args)
  | listElem (es : List Expr) (a : Expr) : a ∈ es → Occurs sub a → Occurs sub (.list es)
  | select (e : Expr) (f : Str) (t : Bool) : Occurs sub e → Occurs sub (.select e f t)
  | compRange (iv av : String) (r i c s res : Expr) : Occurs sub r → Occurs sub (.comp iv r av i c s res)
  | compStep (iv av : String) (r i c s res : Expr) : Occurs sub s → Occurs sub (.comp iv r av i c s res)

theorem occ_arg {sub : Expr} (f : String) (args : List Expr) (h : sub ∈ args) : Occurs sub (.call f args) :=
  Occurs.callArg f args sub h Occurs.here

/-- every comprehension macro: the receiver is the range, unchanged; every non-binder argument
occurs intact inside the loop step; the binder becomes the iteration variable -/
theorem macro_expansion_preserves_arguments (f : String) (t : Expr) (args : List Expr) (e : Expr)
    (h : Macros.expand f (some t) args = .ok e) :
    ∃ v iv av init cond step res, args.head? = some (.ident v) ∧
      e = .comp iv t av init cond step res ∧ iv = v ∧
      ∀ a ∈ args.tail, Occurs a step := by
  unfold Macros.expand at h
  split at h
  · simp at *
  · rename_i t' v p heq1
    simp at heq1
    subst heq1
    split at h
    · cases v <;> simp at h
      rename_i n
      refine ⟨n, ?_⟩
      split at h
      · simp [Macros.expandAll] at h; subst h
        exact ⟨_, _, _, _, _, _, rfl, rfl, rfl, by intro a ha; simp at ha; subst ha; exact occ_arg _ _ (by simp)⟩
      split at h
      · simp [Macros.expandExists] at h; subst h
        exact ⟨_, _, _, _, _, _, rfl, rfl, rfl, by intro a ha; simp at ha; subst ha; exact occ_arg _ _ (by simp)⟩
      split at h
      · simp [Macros.expandExistsOne] at h; subst h
        exact ⟨_, _, _, _, _, _, rfl, rfl, rfl, by intro a ha; simp at ha; subst ha; exact occ_arg _ _ (by simp)⟩
      split at h
      · simp [Macros.expandMap] at h; subst h
        refine ⟨_, _, _, _, _, _, rfl, rfl, rfl, ?_⟩
        intro a ha; simp at ha; subst ha
        exact Occurs.callArg _ _ (.list [a]) (by simp) (Occurs.listElem _ a (by simp) Occurs.here)
      · simp [Macros.expandFilter] at h; subst h
        exact ⟨_, _, _, _, _, _, rfl, rfl, rfl, by intro a ha; simp at ha; subst ha; exact occ_arg _ _ (by simp)⟩
    · simp at h
  · rename_i t' v p fn heq1
    simp at heq1
    subst heq1
    split at h
    · cases v <;> simp at h
      rename_i n
      simp [Macros.expandMapFilter] at h; subst h
      refine ⟨n, _, _, _, _, _, _, rfl, rfl, rfl, ?_⟩
      intro a ha; simp at ha
      rcases ha with rfl | rfl
      · exact occ_arg _ _ (by simp)
      · exact Occurs.callArg _ _ (.call "_+_" [Macros.accuIdent, .list [a]]) (by simp)
          (Occurs.callArg _ _ (.list [a]) (by simp) (Occurs.listElem _ a (by simp) Occurs.here))
    · simp at h
  · simp at h

/-- `has(e.f)` only sets the test flag of the selection it is given -/
theorem has_expansion (a e : Expr) (h : Macros.expand "has" none [a] = .ok e) :
    ∃ operand field t, a = .select operand field t ∧ e = .select operand field true := by
  simp only [Macros.expand] at h
  cases a <;> simp [Macros.expandHas] at h
  case select o f t => exact ⟨o, f, t, rfl, h.symm⟩

/-- anything that is not one of the macro shapes is left alone (an ordinary call) -/
theorem non_macro_names_untouched (f : String) (target : Option Expr) (args : List Expr)
    (hf : f ≠ "has" ∧ f ≠ "all" ∧ f ≠ "exists" ∧ f ≠ "exists_one" ∧ f ≠ "existsOne" ∧ f ≠ "map" ∧ f ≠ "filter") :
    Macros.expand f target args = .notMacro := by
  obtain ⟨h1, h2, h3, h4, h5, h6, h7⟩ := hf
  unfold Macros.expand
  split <;> simp [*]

/-! ## fully parenthesised rendering parses back to the same tree -/

/-- source-level trees over the complete expression syntax except macros (and message literals):
the operators, member selection and indexing, function calls in both styles, list and map
literals -/
inductive Src where
  | ident (n : Str)
  | num (n : Nat)
  | bin (sym : String) (opName : String) (a b : Src)   -- a binary operator token and its function name
  | not (a : Src)
  | neg (a : Src)
  | cond (c a b : Src)
  | index (a i : Src)
  | select (a : Src) (f : Str)
  | call (f : Str) (args : List Src)                   -- `f(a, b, …)`
  | mcall (t : Src) (f : Str) (args : List Src)        -- `t.f(a, b, …)`
  | list (es : List Src)                               -- `[a, b, …]`
  | mapLit (es : List (Src × Src))                     -- `{k: v, …}`
deriving Repr, Inhabited

/-- the binary operator tokens with their precedence class and function name -/
def binTable : List (String × String) :=
  [("||", "_||_"), ("&&", "_&&_"), ("<", "_<_"), ("<=", "_<=_"), (">=", "_>=_"), (">", "_>_"),
   ("==", "_==_"), ("!=", "_!=_"), ("in", "@in"), ("+", "_+_"), ("-", "_-_"), ("*", "_*_"),
   ("/", "_/_"), ("%", "_%_")]

/-- the names `Macros.expand` reacts to (in some call shape) -/
def macroNames : List String := ["has", "all", "exists", "exists_one", "existsOne", "map", "filter"]

/-- a function name in a call: an identifier token that is not a keyword (as for `.ident`), and
not the name of a macro — a call `has(x)`, `r.all(v, p)`, … is expanded (or rejected) by the
parser instead of becoming a call node, see `macro_expansion_preserves_arguments` / `has_expansion`.
The side condition excludes the seven names in every call shape (a little more than necessary:
`has(a, b)` or `all(x)` are ordinary calls for the parser). -/
def FnName (f : Str) : Prop :=
  (f ≠ [] ∧ f ≠ "true".toList ∧ f ≠ "false".toList ∧ f ≠ "null".toList ∧ f ≠ "in".toList) ∧
    String.ofList f ∉ macroNames

instance (f : Str) : Decidable (FnName f) := by unfold FnName; infer_instance

theorem FnName.notMacro {f : Str} (h : FnName f) (target : Option Expr) (args : List Expr) :
    Macros.expand (String.ofList f) target args = .notMacro := by
  apply non_macro_names_untouched
  have := h.2
  simp only [macroNames, List.mem_cons, List.mem_nil_iff, or_false, not_or] at this
  exact this

mutual
/-- well-formed: identifiers are identifier tokens that are not keywords, numerals within
range, binary nodes carry a (token, name) pair of the table, the function name of a call is an
identifier that is not a macro name (`FnName`); all arguments, elements and entries well-formed -/
def Src.WF : Src → Prop
  | .ident n => n ≠ [] ∧ n ≠ "true".toList ∧ n ≠ "false".toList ∧ n ≠ "null".toList ∧ n ≠ "in".toList
  | .num n => (n : Int) ≤ i64Max
  | .bin sym nm a b => (sym, nm) ∈ binTable ∧ a.WF ∧ b.WF
  | .not a => a.WF
  | .neg a => a.WF
  | .cond c a b => c.WF ∧ a.WF ∧ b.WF
  | .index a i => a.WF ∧ i.WF
  | .select a f => a.WF ∧ f ≠ []
  | .call f args => FnName f ∧ Src.WFList args
  | .mcall t f args => t.WF ∧ FnName f ∧ Src.WFList args
  | .list es => Src.WFList es
  | .mapLit es => Src.WFEntries es
def Src.WFList : List Src → Prop
  | [] => True
  | a :: as => a.WF ∧ Src.WFList as
def Src.WFEntries : List (Src × Src) → Prop
  | [] => True
  | (k, v) :: es => k.WF ∧ v.WF ∧ Src.WFEntries es
end

theorem Src.wfList_iff (as : List Src) : Src.WFList as ↔ ∀ a ∈ as, a.WF := by
  induction as with
  | nil => simp [Src.WFList]
  | cons a as ih => simp [Src.WFList, ih]

theorem Src.wfEntries_iff (es : List (Src × Src)) : Src.WFEntries es ↔ ∀ p ∈ es, p.1.WF ∧ p.2.WF := by
  induction es with
  | nil => simp [Src.WFEntries]
  | cons p es ih => obtain ⟨k, v⟩ := p; simp [Src.WFEntries, ih, and_assoc]

mutual
/-- the tree a source-level tree denotes -/
def Src.denote : Src → Expr
  | .ident n => .ident (String.ofList n)
  | .num n => .lit (.int n)
  | .bin _ nm a b => .call nm [a.denote, b.denote]
  | .not a => .call "!_" [a.denote]
  | .neg a => .call "-_" [a.denote]
  | .cond c a b => .call "_?_:_" [c.denote, a.denote, b.denote]
  | .index a i => .call "_[_]" [a.denote, i.denote]
  | .select a f => .select a.denote f false
  | .call f args => .call (String.ofList f) (Src.denoteList args)
  | .mcall t f args => .mcall (String.ofList f) t.denote (Src.denoteList args)
  | .list es => .list (Src.denoteList es)
  | .mapLit es => .map (Src.denoteEntries es)
/-- `as.map denote` -/
def Src.denoteList : List Src → List Expr
  | [] => []
  | a :: as => a.denote :: Src.denoteList as
/-- `es.map fun (k, v) => (k.denote, v.denote)` -/
def Src.denoteEntries : List (Src × Src) → List (Expr × Expr)
  | [] => []
  | (k, v) :: es => (k.denote, v.denote) :: Src.denoteEntries es
end

theorem Src.denoteList_eq_map (as : List Src) : Src.denoteList as = as.map Src.denote := by
  induction as with
  | nil => simp [Src.denoteList]
  | cons a as ih => simp [Src.denoteList, ih]

theorem Src.denoteEntries_eq_map (es : List (Src × Src)) :
    Src.denoteEntries es = es.map fun p => (p.1.denote, p.2.denote) := by
  induction es with
  | nil => simp [Src.denoteEntries]
  | cons p es ih => obtain ⟨k, v⟩ := p; simp [Src.denoteEntries, ih]

mutual
/-- fully parenthesised token rendering: every compound operator node is wrapped in parentheses,
the operand of a prefix operator and the target of a suffix (selection, index, method call) are
parenthesised too; arguments, elements and entries are separated by commas, without a trailing
comma (`sepList`, `sepEntries`: `CelModel/Lemmas/ParserCalls.lean`) -/
def Src.render : Src → Toks
  | .ident n => [.ident n]
  | .num n => [.int (natToDec n)]
  | .bin sym _ a b => [.sym "("] ++ a.render ++ [.sym sym] ++ b.render ++ [.sym ")"]
  | .not a => [.sym "(", .sym "!", .sym "("] ++ a.render ++ [.sym ")", .sym ")"]
  | .neg a => [.sym "(", .sym "-", .sym "("] ++ a.render ++ [.sym ")", .sym ")"]
  | .cond c a b => [.sym "("] ++ c.render ++ [.sym "?"] ++ a.render ++ [.sym ":"] ++ b.render ++ [.sym ")"]
  | .index a i => [.sym "(", .sym "("] ++ a.render ++ [.sym ")", .sym "["] ++ i.render ++ [.sym "]", .sym ")"]
  | .select a f => [.sym "(", .sym "("] ++ a.render ++ [.sym ")", .sym ".", .ident f, .sym ")"]
  | .call f args => [.ident f, .sym "("] ++ sepList (Src.renderEach args) ++ [.sym ")"]
  | .mcall t f args =>
    [.sym "(", .sym "("] ++ t.render ++ [.sym ")", .sym ".", .ident f, .sym "("]
      ++ sepList (Src.renderEach args) ++ [.sym ")", .sym ")"]
  | .list es => [.sym "["] ++ sepList (Src.renderEach es) ++ [.sym "]"]
  | .mapLit es => [.sym "{"] ++ sepEntries (Src.renderEntries es) ++ [.sym "}"]
/-- `as.map render` -/
def Src.renderEach : List Src → List Toks
  | [] => []
  | a :: as => a.render :: Src.renderEach as
/-- `es.map fun (k, v) => (k.render, v.render)` -/
def Src.renderEntries : List (Src × Src) → List (Toks × Toks)
  | [] => []
  | (k, v) :: es => (k.render, v.render) :: Src.renderEntries es
end

theorem Src.renderEach_eq_map (as : List Src) : Src.renderEach as = as.map Src.render := by
  induction as with
  | nil => simp [Src.renderEach]
  | cons a as ih => simp [Src.renderEach, ih]

theorem Src.renderEntries_eq_map (es : List (Src × Src)) :
    Src.renderEntries es = es.map fun p => (p.1.render, p.2.render) := by
  induction es with
  | nil => simp [Src.renderEntries]
  | cons p es ih => obtain ⟨k, v⟩ := p; simp [Src.renderEntries, ih]

theorem Src.length_renderEach (as : List Src) : (Src.renderEach as).length = as.length := by
  simp [Src.renderEach_eq_map]

theorem Src.length_renderEntries (es : List (Src × Src)) : (Src.renderEntries es).length = es.length := by
  simp [Src.renderEntries_eq_map]

mutual
/-- number of compound nodes, every argument / element / entry of a call or literal counting
once more (the fuel needed is proportional to it) -/
def sz : Src → Nat
  | .ident _ => 0
  | .num _ => 0
  | .bin _ _ a b => sz a + sz b + 1
  | .not a => sz a + 1
  | .neg a => sz a + 1
  | .cond c a b => sz c + sz a + sz b + 1
  | .index a i => sz a + sz i + 1
  | .select a _ => sz a + 1
  | .call _ args => szList args + args.length + 1
  | .mcall t _ args => sz t + szList args + args.length + 1
  | .list es => szList es + es.length + 1
  | .mapLit es => szEntries es + es.length + 1
def szList : List Src → Nat
  | [] => 0
  | a :: as => sz a + szList as
def szEntries : List (Src × Src) → Nat
  | [] => 0
  | (k, v) :: es => sz k + sz v + szEntries es
end

mutual
theorem sz_le_render : (t : Src) → sz t ≤ t.render.length
  | .ident _ => by simp [sz]
  | .num _ => by simp [sz]
  | .bin _ _ a b => by
    have := sz_le_render a; have := sz_le_render b
    simp [sz, Src.render]; omega
  | .not a => by have := sz_le_render a; simp [sz, Src.render]; omega
  | .neg a => by have := sz_le_render a; simp [sz, Src.render]; omega
  | .cond c a b => by
    have := sz_le_render c; have := sz_le_render a; have := sz_le_render b
    simp [sz, Src.render]; omega
  | .index a i => by
    have := sz_le_render a; have := sz_le_render i
    simp [sz, Src.render]; omega
  | .select a _ => by have := sz_le_render a; simp [sz, Src.render]; omega
  | .call _ args => by
    have := szList_le args; have := length_sepTail_le (Src.renderEach args)
    simp [sz, Src.render]; omega
  | .mcall t _ args => by
    have := sz_le_render t; have := szList_le args; have := length_sepTail_le (Src.renderEach args)
    simp [sz, Src.render]; omega
  | .list es => by
    have := szList_le es; have := length_sepTail_le (Src.renderEach es)
    simp [sz, Src.render]; omega
  | .mapLit es => by
    have := szEntries_le es; have := length_sepEntTail_le (Src.renderEntries es)
    simp [sz, Src.render]; omega
theorem szList_le : (as : List Src) → szList as + as.length ≤ (sepTail (Src.renderEach as)).length
  | [] => by simp [szList]
  | a :: as => by
    have := sz_le_render a; have := szList_le as
    simp [szList, Src.renderEach, sepTail]; omega
theorem szEntries_le : (es : List (Src × Src)) →
    szEntries es + es.length ≤ (sepEntTail (Src.renderEntries es)).length
  | [] => by simp [szEntries]
  | (k, v) :: es => by
    have := sz_le_render k; have := sz_le_render v; have := szEntries_le es
    simp [szEntries, Src.renderEntries, sepEntTail]; omega
end

mutual
/-- every rendered tree is an atom: `parsePrimary` reads exactly it, whatever closes it -/
theorem render_parsesAtom : (t : Src) → t.WF → ParsesAtom (20 * sz t) t.render t.denote
  | .ident n, _ => (parsesAtom_ident n).mono (by omega)
  | .num n, h => (parsesAtom_int _ _ (C13.int_literal_exact n h)).mono (by omega)
  | .bin sym nm a b, h => by
    simp only [Src.WF] at h
    obtain ⟨hop, ha, hb⟩ := h
    have iha := (render_parsesAtom a ha).mono (f' := 20 * (sz a + sz b)) (by omega)
    have ihb := (render_parsesAtom b hb).mono (f' := 20 * (sz a + sz b)) (by omega)
    have e : 20 * sz (.bin sym nm a b) = 20 * (sz a + sz b) + 20 := by simp only [sz]; omega
    rw [e]
    simp only [Src.render, Src.denote]
    simp only [binTable, List.mem_cons, Prod.mk.injEq, List.mem_nil_iff, or_false] at hop
    rcases hop with ⟨rfl, rfl⟩ | ⟨rfl, rfl⟩ | ⟨rfl, rfl⟩ | ⟨rfl, rfl⟩ | ⟨rfl, rfl⟩ | ⟨rfl, rfl⟩ | ⟨rfl, rfl⟩ |
      ⟨rfl, rfl⟩ | ⟨rfl, rfl⟩ | ⟨rfl, rfl⟩ | ⟨rfl, rfl⟩ | ⟨rfl, rfl⟩ | ⟨rfl, rfl⟩ | ⟨rfl, rfl⟩
    · exact parsesAtom_orOp iha ihb
    · exact parsesAtom_andOp iha ihb
    · exact parsesAtom_relOp iha ihb rfl
    · exact parsesAtom_relOp iha ihb rfl
    · exact parsesAtom_relOp iha ihb rfl
    · exact parsesAtom_relOp iha ihb rfl
    · exact parsesAtom_relOp iha ihb rfl
    · exact parsesAtom_relOp iha ihb rfl
    · exact parsesAtom_relOp iha ihb rfl
    · exact parsesAtom_addOp iha ihb rfl
    · exact parsesAtom_addOp iha ihb rfl
    · exact parsesAtom_mulOp iha ihb rfl
    · exact parsesAtom_mulOp iha ihb rfl
    · exact parsesAtom_mulOp iha ihb rfl
  | .not a, h => by
    simp only [Src.WF] at h
    have e : 20 * sz (.not a) = 20 * sz a + 20 := by simp only [sz]; omega
    rw [e]
    simp only [Src.render, Src.denote]
    exact parsesAtom_not (render_parsesAtom a h)
  | .neg a, h => by
    simp only [Src.WF] at h
    have e : 20 * sz (.neg a) = 20 * sz a + 20 := by simp only [sz]; omega
    rw [e]
    simp only [Src.render, Src.denote]
    exact parsesAtom_neg (render_parsesAtom a h)
  | .cond c a b, h => by
    simp only [Src.WF] at h
    obtain ⟨hc, ha, hb⟩ := h
    have ihc := (render_parsesAtom c hc).mono (f' := 20 * (sz c + sz a + sz b)) (by omega)
    have iha := (render_parsesAtom a ha).mono (f' := 20 * (sz c + sz a + sz b)) (by omega)
    have ihb := (render_parsesAtom b hb).mono (f' := 20 * (sz c + sz a + sz b)) (by omega)
    have e : 20 * sz (.cond c a b) = 20 * (sz c + sz a + sz b) + 20 := by simp only [sz]; omega
    rw [e]
    simp only [Src.render, Src.denote]
    exact parsesAtom_cond ihc iha ihb
  | .index a i, h => by
    simp only [Src.WF] at h
    obtain ⟨ha, hi⟩ := h
    have iha := (render_parsesAtom a ha).mono (f' := 20 * (sz a + sz i)) (by omega)
    have ihi := (render_parsesAtom i hi).mono (f' := 20 * (sz a + sz i)) (by omega)
    have e : 20 * sz (.index a i) = 20 * (sz a + sz i) + 20 := by simp only [sz]; omega
    rw [e]
    simp only [Src.render, Src.denote]
    exact parsesAtom_index iha ihi
  | .select a f, h => by
    simp only [Src.WF] at h
    have e : 20 * sz (.select a f) = 20 * sz a + 20 := by simp only [sz]; omega
    rw [e]
    simp only [Src.render, Src.denote]
    exact parsesAtom_select (render_parsesAtom a h.1) f
  | .call f args, h => by
    simp only [Src.WF] at h
    have hI := renderEach_items args h.2
    have hlen := Src.length_renderEach args
    simp only [Src.render, Src.denote]
    exact (parsesAtom_call hI f (h.1.notMacro _ _)).mono (by simp only [sz]; omega)
  | .mcall t f args, h => by
    simp only [Src.WF] at h
    have hI := renderEach_items args h.2.2
    have hlen := Src.length_renderEach args
    have e : 20 * sz (.mcall t f args) = 20 * (sz t + szList args + args.length) + 20 := by
      simp only [sz]; omega
    rw [e]
    simp only [Src.render, Src.denote]
    exact parsesAtom_mcall (render_parsesAtom t h.1) hI (by omega) (by omega) f (h.2.1.notMacro _ _)
  | .list es, h => by
    simp only [Src.WF] at h
    have hI := renderEach_items es h
    have hlen := Src.length_renderEach es
    simp only [Src.render, Src.denote]
    exact (parsesAtom_list hI).mono (by simp only [sz]; omega)
  | .mapLit es, h => by
    simp only [Src.WF] at h
    have hI := renderEntries_entries es h
    have hlen := Src.length_renderEntries es
    simp only [Src.render, Src.denote]
    exact (parsesAtom_map hI).mono (by simp only [sz]; omega)
/-- the rendered arguments / elements are read one by one -/
theorem renderEach_items : (as : List Src) → Src.WFList as →
    Items (20 * szList as + 8) (Src.renderEach as) (Src.denoteList as)
  | [], _ => .nil
  | a :: as, h => by
    simp only [Src.WFList] at h
    simp only [Src.renderEach, Src.denoteList]
    exact .cons ((parsesAt0_of_atom (render_parsesAtom a h.1)).mono (by simp only [szList]; omega))
      ((renderEach_items as h.2).mono (by simp only [szList]; omega))
theorem renderEntries_entries : (es : List (Src × Src)) → Src.WFEntries es →
    Entries (20 * szEntries es + 8) (Src.renderEntries es) (Src.denoteEntries es)
  | [], _ => .nil
  | (k, v) :: es, h => by
    simp only [Src.WFEntries] at h
    simp only [Src.renderEntries, Src.denoteEntries]
    exact .cons ((parsesAt0_of_atom (render_parsesAtom k h.1)).mono (by simp only [szEntries]; omega))
      ((parsesAt0_of_atom (render_parsesAtom v h.2.1)).mono (by simp only [szEntries]; omega))
      ((renderEntries_entries es h.2.2).mono (by simp only [szEntries]; omega))
end

/-- ROUND TRIP (full parenthesisation): rendering any well-formed tree and parsing the tokens
yields the tree it denotes — precedence, associativity and grouping are preserved for every
tree, of every size and depth. -/
theorem parse_render_full (t : Src) (h : t.WF) : parseTop t.render = some t.denote := by
  have hA := render_parsesAtom t h
  have hlen := sz_le_render t
  have hE := hA.expr (g := 40 * (t.render.length + 2) - 9) (by omega) [] (by simp [lvl_empty])
  rw [List.append_nil, show 40 * (t.render.length + 2) - 9 + 9 = 40 * (t.render.length + 2) by omega] at hE
  unfold parseTop
  rw [hE]

/-! non-vacuity: `((f(a, (b + c))).g([d], {e: f}))[0]) * 2`, fully parenthesised -/
section Examples
/-- `f(a, b + c).g([d], {e: f})[0] * 2` -/
def exCall : Src :=
  .bin "*" "_*_"
    (.index
      (.mcall (.call "f".toList [.ident "a".toList, .bin "+" "_+_" (.ident "b".toList) (.ident "c".toList)])
        "g".toList [.list [.ident "d".toList], .mapLit [(.ident "e".toList, .ident "f".toList)]])
      (.num 0))
    (.num 2)

example : exCall.render =
    [.sym "(", .sym "(", .sym "(", .sym "(", .sym "(",
       .ident "f".toList, .sym "(", .ident "a".toList, .sym ",",
         .sym "(", .ident "b".toList, .sym "+", .ident "c".toList, .sym ")", .sym ")",
       .sym ")", .sym ".", .ident "g".toList, .sym "(",
         .sym "[", .ident "d".toList, .sym "]", .sym ",",
         .sym "{", .ident "e".toList, .sym ":", .ident "f".toList, .sym "}", .sym ")", .sym ")",
       .sym ")", .sym "[", .int "0".toList, .sym "]", .sym ")",
     .sym "*", .int "2".toList, .sym ")"] := by decide

example : exCall.denote =
    .call "_*_" [.call "_[_]" [.mcall "g" (.call "f" [.ident "a", .call "_+_" [.ident "b", .ident "c"]])
      [.list [.ident "d"], .map [(.ident "e", .ident "f")]], .lit (.int 0)], .lit (.int 2)] := by
  simp [exCall, Src.denote, Src.denoteList, Src.denoteEntries]

example : exCall.WF := by
  simp [exCall, Src.WF, Src.WFList, Src.WFEntries, FnName, macroNames, binTable,
    i64Max]

example : parseTop exCall.render = some exCall.denote :=
  parse_render_full _ (by
    simp [exCall, Src.WF, Src.WFList, Src.WFEntries, FnName, macroNames, binTable,
      i64Max])
end Examples

end Cel.Props.C04
