import CelModel.Props.C18
/-!
# C18 (continued) — "bytes become standard base64": the export is decodable

`base64_length` and `base64_alphabet` (C18) say how long the text is and which characters it
uses.  Here the defining property of RFC 4648 base64: a reference decoder (sextet value of each
character, four characters → three bytes, `=` padding marks one or two missing bytes) recovers
exactly the bytes that were exported — so the export is faithful (injective) on bytes.
-/
namespace Cel.Props.C18
open Cel Cel.Serde

/-- value of a character of the standard alphabet (`A–Z a–z 0–9 + /`) -/
def b64Val (c : Char) : Option Nat :=
  if 'A' ≤ c && c ≤ 'Z' then some (c.toNat - 65)
  else if 'a' ≤ c && c ≤ 'z' then some (c.toNat - 97 + 26)
  else if '0' ≤ c && c ≤ '9' then some (c.toNat - 48 + 52)
  else if c == '+' then some 62
  else if c == '/' then some 63
  else none

/-- RFC 4648 decoder for padded standard base64 -/
def b64Decode : Str → Option (List UInt8)
  | [] => some []
  | [a, b, '=', '='] =>
    match b64Val a, b64Val b with
    | some x, some y => some [(x * 4 + y / 16).toUInt8]
    | _, _ => none
  | [a, b, c, '='] =>
    match b64Val a, b64Val b, b64Val c with
    | some x, some y, some z => some [(x * 4 + y / 16).toUInt8, (y % 16 * 16 + z / 4).toUInt8]
    | _, _, _ => none
  | a :: b :: c :: d :: rest =>
    match b64Val a, b64Val b, b64Val c, b64Val d, b64Decode rest with
    | some x, some y, some z, some w, some bs =>
      some ((x * 4 + y / 16).toUInt8 :: (y % 16 * 16 + z / 4).toUInt8 :: (z % 4 * 64 + w).toUInt8 :: bs)
    | _, _, _, _, _ => none
  | _ => none

/-- the alphabet function and its inverse -/
theorem b64Val_b64Char (n : Nat) (h : n < 64) : b64Val (b64Char n) = some n := by
  have : ∀ k : Fin 64, b64Val (b64Char k.val) = some k.val := by decide
  exact this ⟨n, h⟩

/-- no character of the alphabet is the padding character, so a sextet is never read as padding -/
theorem b64Char_ne_pad (n : Nat) (h : n < 64) : b64Char n ≠ '=' := by
  have : ∀ k : Fin 64, b64Char k.val ≠ '=' := by decide
  exact this ⟨n, h⟩

theorem toUInt8_of_eq (k : Nat) (a : UInt8) (h : k = a.toNat) : k.toUInt8 = a := by
  subst h; exact UInt8.ofNat_toNat

theorem base64_decode_encode_aux : ∀ (bs : List UInt8), b64Decode (base64 bs) = some bs
  | [] => by simp [base64, b64Decode]
  | [a] => by
    have ha := UInt8.toNat_lt a
    simp only [base64]
    rw [b64Decode.eq_2, b64Val_b64Char _ (by omega), b64Val_b64Char _ (by omega)]
    simp only [Option.some.injEq, List.cons.injEq, and_true]
    exact toUInt8_of_eq _ _ (by omega)
  | [a, b] => by
    have ha := UInt8.toNat_lt a
    have hb := UInt8.toNat_lt b
    simp only [base64]
    rw [b64Decode.eq_3 _ _ _ (b64Char_ne_pad _ (by omega)), b64Val_b64Char _ (by omega),
      b64Val_b64Char _ (by omega), b64Val_b64Char _ (by omega)]
    simp only [Option.some.injEq, List.cons.injEq, and_true]
    exact ⟨toUInt8_of_eq _ _ (by omega), toUInt8_of_eq _ _ (by omega)⟩
  | a :: b :: c :: rest => by
    have ha := UInt8.toNat_lt a
    have hb := UInt8.toNat_lt b
    have hc := UInt8.toNat_lt c
    simp only [base64]
    -- the fourth character is a sextet, never `=`: neither padded pattern of the decoder fires
    have hd : b64Char ((a.toNat * 65536 + b.toNat * 256 + c.toNat) % 64) ≠ '=' :=
      b64Char_ne_pad _ (by omega)
    rw [b64Decode.eq_4 _ _ _ _ _ (fun _ h _ => hd h) (fun h _ => hd h),
      b64Val_b64Char _ (by omega), b64Val_b64Char _ (by omega), b64Val_b64Char _ (by omega),
      b64Val_b64Char _ (by omega), base64_decode_encode_aux rest]
    simp only [Option.some.injEq, List.cons.injEq, and_true]
    exact ⟨toUInt8_of_eq _ _ (by omega), toUInt8_of_eq _ _ (by omega), toUInt8_of_eq _ _ (by omega)⟩

/-- DECODABLE: decoding the exported text gives back exactly the bytes -/
theorem base64_decode_encode (bs : List UInt8) : b64Decode (base64 bs) = some bs :=
  base64_decode_encode_aux bs

/-- hence the export of bytes is injective -/
theorem base64_injective (a b : List UInt8) (h : base64 a = base64 b) : a = b := by
  have := base64_decode_encode a
  rw [h, base64_decode_encode b] at this
  exact (Option.some.inj this).symm

example : base64 [0x66, 0x6f, 0x6f, 0x62, 0x61] = "Zm9vYmE=".toList := by decide
example : b64Decode "Zm9vYmE=".toList = some [0x66, 0x6f, 0x6f, 0x62, 0x61] := by decide

end Cel.Props.C18
