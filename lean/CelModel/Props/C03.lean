import CelModel.Props.C07
import CelModel.Props.C08
/-!
# C03 — evaluation of the core language follows the documented reference semantics

For this property the Lean evaluator *is* the reference semantics; the theorems below are the
named rules of the statement, proved of `eval` for all operands: operands left to right with the
first error aborting, short-circuit logic (C06), checked 64-bit integer arithmetic (C08), null
for an absent index.  (A type-soundness theorem for the typed fragment is not yet proved; see
DESIGN.md, C03.)
-/
namespace Cel.Props.C03
open Cel

/-- strict binary operator, left operand errs: the node yields that error and nothing of the
right operand happens -/
theorem binop_left_error_aborts (ctx : Ctx) (op : BinOp) (a b : Expr) (hs : op ≠ .and ∧ op ≠ .or)
    (st st1 : St Value) (e : ErrC) (h : eval ctx a (tickSt st) = (.err e, st1)) :
    eval ctx (.call op.name [a, b]) st = (.err e, st1) := by
  rw [C07.strict_binop_operands_once_in_order ctx op a b hs]
  show (M.tick >>= fun _ => eval ctx a >>= fun l => eval ctx b >>= fun r => M.lift (applyBin op l r)) st = _
  rw [M.tick_bind, M.bind_err h]

/-- strict binary operator, left operand fine, right operand errs: that error -/
theorem binop_right_error_aborts (ctx : Ctx) (op : BinOp) (a b : Expr) (hs : op ≠ .and ∧ op ≠ .or)
    (st st1 st2 : St Value) (l : Value) (e : ErrC)
    (h1 : eval ctx a (tickSt st) = (.ok l, st1)) (h2 : eval ctx b st1 = (.err e, st2)) :
    eval ctx (.call op.name [a, b]) st = (.err e, st2) := by
  rw [C07.strict_binop_operands_once_in_order ctx op a b hs]
  show (M.tick >>= fun _ => eval ctx a >>= fun l => eval ctx b >>= fun r => M.lift (applyBin op l r)) st = _
  rw [M.tick_bind, M.bind_ok h1, M.bind_err h2]

/-- both operands fine: the operator is applied to the two values, in the final state -/
theorem binop_applies_operator (ctx : Ctx) (op : BinOp) (a b : Expr) (hs : op ≠ .and ∧ op ≠ .or)
    (st st1 st2 : St Value) (l r : Value)
    (h1 : eval ctx a (tickSt st) = (.ok l, st1)) (h2 : eval ctx b st1 = (.ok r, st2)) :
    eval ctx (.call op.name [a, b]) st = (applyBin op l r, st2) := by
  rw [C07.strict_binop_operands_once_in_order ctx op a b hs]
  show (M.tick >>= fun _ => eval ctx a >>= fun l => eval ctx b >>= fun r => M.lift (applyBin op l r)) st = _
  rw [M.tick_bind, M.bind_ok h1, M.bind_ok h2]
  rfl

/-- list literal: the first failing element aborts with its error -/
theorem list_first_error_aborts (ctx : Ctx) (e : Expr) (es : List Expr) (st st1 : St Value)
    (err : ErrC) (h : eval ctx e (tickSt st) = (.err err, st1)) :
    eval ctx (.list (e :: es)) st = (.err err, st1) := by
  rw [C07.list_literal_in_order]
  show (M.tick >>= fun _ => eval ctx e >>= fun v => evalList ctx es >>= fun vs => (pure (Value.list (v :: vs)) : EvalM Value)) st = _
  rw [M.tick_bind, M.bind_err h]

/-- indexing a list: the element when the index is in range, `null` otherwise (negative
indices and indices beyond the end included) -/
theorem list_index_spec (xs : List Value) (i : Int) :
    indexOp (.list xs) (.int i) =
      .ok (if h : 0 ≤ i ∧ i.toNat < xs.length then xs[i.toNat]'h.2 else .null) := by
  unfold indexOp
  by_cases h0 : 0 ≤ i
  · by_cases h1 : i.toNat < xs.length
    · simp [h0, h1, List.getElem?_eq_getElem h1]
    · have : xs[i.toNat]? = none := List.getElem?_eq_none (by omega)
      simp [h0, h1, this]
  · simp [h0]

/-- indexing a map with an absent key is `null`, with a present key the value stored -/
theorem map_index_absent_is_null (m : MapV) (k : Key) (h : MapV.get m k = none) :
    indexOp (.map m) k.toValue = .ok .null := by
  cases k <;> simp [indexOp, Key.toValue, h]

theorem map_index_present_is_value (m : MapV) (k : Key) (v : Value) (h : MapV.get m k = some v) :
    indexOp (.map m) k.toValue = .ok v := by
  cases k <;> simp [indexOp, Key.toValue, h]

/-- integer `+ - *` inside the evaluator are the checked operations of C08 -/
theorem int_arith_is_checked (op : ArithOp) (a b : Int) :
    arith op (.int a) (.int b) = (intArith op a b).map .int := by
  cases op <;> rfl

theorem uint_arith_is_checked (op : ArithOp) (a b : Int) :
    arith op (.uint a) (.uint b) = (uintArith op a b).map .uint := by
  cases op <;> rfl

/-- evaluation is a function of context, program and start state (determinism up to the order
in which a host map is handed over) -/
theorem eval_deterministic (ctx : Ctx) (e : Expr) (st : St Value) (r1 r2 : Outcome Value × St Value)
    (h1 : eval ctx e st = r1) (h2 : eval ctx e st = r2) : r1 = r2 := by
  rw [← h1, ← h2]

/-- an undeclared identifier is exactly the `undeclared` error naming it -/
theorem ident_lookup (ctx : Ctx) (n : String) (st : St Value) :
    eval ctx (.ident n) st =
      match ctx.getVariable n with
      | some v => (.ok v, tickSt st)
      | none => (.err (.undeclared n), tickSt st) := by
  rw [eval]
  cases h : ctx.getVariable n <;> simp [h, bind, M.bind, M.tick, tickSt, M.throw, pure, M.pure]

/-! ### non-vacuity -/
example : indexOp (.list [.int 7, .int 8]) (.int 1) = .ok (.int 8) := by
  rw [list_index_spec]; rfl
example : indexOp (.list [.int 7, .int 8]) (.int (-1)) = .ok .null := by
  rw [list_index_spec]; rfl
example : indexOp (.list [.int 7]) (.int 9223372036854775807) = .ok .null := by
  rw [list_index_spec]; rfl

end Cel.Props.C03
