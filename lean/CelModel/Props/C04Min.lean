import CelModel.Props.C04
import CelModel.Lemmas.ParserMin
import CelModel.Lemmas.ParserCalls
/-!
# C04 (continued) — round trip through *minimal* parenthesisation

`Src.renderMin` writes a tree with only the parentheses CEL's precedence table requires:
`?:` binds loosest and to the right, then `||`, `&&`, the relations, the additive and the
multiplicative operators (left-associative), then prefix `!` and `-`, then member access,
method calls and indexing; function calls, list and map literals are primaries, their arguments /
elements / entries are written without parentheses (whatever their root operator).  The theorem: parsing the minimally parenthesised tokens yields the tree — for every
well-formed tree, of every size and depth.

Three places keep a pair of parentheses that precedence alone would not demand, because the
grammar gives the unparenthesised text another meaning (each is the subject of its own theorem in
`Props/C04.lean`): a nested `||` inside `||` or `&&` inside `&&` (an unparenthesised chain is
re-balanced: `balanced_tree_inorder`), the operand of a prefix operator unless it is a member
expression (`!!x` cancels, `!-x` is not in the grammar: `prefix_not_parity`, `prefix_neg_parity`),
and an operand of unary minus whose text starts with a numeral (`-1`, `-1.f` read the minus as
the numeral's sign: `single_minus_before_int_is_sign`).
-/
namespace Cel.Props.C04
open Cel Cel.Parser Cel.Lexer Cel.Lemmas.ParserCalls

/-- binding strength of the node at the root: 0 `?:`, 1 `||`, 2 `&&`, 3 relations, 4 additive,
5 multiplicative, 6 prefix, 7 member / primary -/
def Src.prec : Src → Nat
  | .ident _ => 7
  | .num _ => 7
  | .bin sym _ _ _ =>
    if sym == "||" then 1 else if sym == "&&" then 2
    else if sym == "+" || sym == "-" then 4
    else if sym == "*" || sym == "/" || sym == "%" then 5
    else 3
  | .not _ => 6
  | .neg _ => 6
  | .cond _ _ _ => 0
  | .index _ _ => 7
  | .select _ _ => 7
  | .call _ _ => 7
  | .mcall _ _ _ => 7
  | .list _ => 7
  | .mapLit _ => 7

/-- enclose in parentheses when needed -/
def wrapIf (need : Bool) (ts : Toks) : Toks := if need then [.sym "("] ++ ts ++ [.sym ")"] else ts

mutual
/-- render the root node without enclosing parentheses; an operand is parenthesised exactly when
it binds more loosely than its position requires (`wrapIf (operand.prec < required) …`); the
arguments of a call, the elements of a list and the keys and values of a map are at level 0
(never parenthesised), the receiver of a method call at level 7 -/
def Src.renderBare : Src → Toks
  | .ident n => [.ident n]
  | .num n => [.int (natToDec n)]
  | .bin sym nm a b =>
    let l := Src.prec (.bin sym nm a b)
    -- `||` and `&&`: both operands one level up (no unparenthesised chains);
    -- the left-associative levels: left operand at the same level, right operand one level up
    if l ≤ 2 then wrapIf (a.prec < l + 1) a.renderBare ++ [.sym sym] ++ wrapIf (b.prec < l + 1) b.renderBare
    else wrapIf (a.prec < l) a.renderBare ++ [.sym sym] ++ wrapIf (b.prec < l + 1) b.renderBare
  | .not a => [.sym "!"] ++ wrapIf (a.prec < 7) a.renderBare
  | .neg a =>
    -- a `-` directly before a numeral token is the numeral's sign: keep them apart
    let r := wrapIf (a.prec < 7) a.renderBare
    match r with
    | .int d :: rest => [.sym "-", .sym "("] ++ (.int d :: rest) ++ [.sym ")"]
    | r => [.sym "-"] ++ r
  | .cond c a b => wrapIf (c.prec < 1) c.renderBare ++ [.sym "?"] ++ wrapIf (a.prec < 1) a.renderBare ++ [.sym ":"] ++ b.renderBare
  | .index a i => wrapIf (a.prec < 7) a.renderBare ++ [.sym "["] ++ i.renderBare ++ [.sym "]"]
  | .select a f => wrapIf (a.prec < 7) a.renderBare ++ [.sym ".", .ident f]
  | .call f args => [.ident f, .sym "("] ++ sepList (Src.renderBareEach args) ++ [.sym ")"]
  | .mcall t f args =>
    wrapIf (t.prec < 7) t.renderBare ++ [.sym ".", .ident f, .sym "("] ++ sepList (Src.renderBareEach args) ++ [.sym ")"]
  | .list es => [.sym "["] ++ sepList (Src.renderBareEach es) ++ [.sym "]"]
  | .mapLit es => [.sym "{"] ++ sepEntries (Src.renderBareEntries es) ++ [.sym "}"]
/-- `as.map renderBare` (every element at level 0) -/
def Src.renderBareEach : List Src → List Toks
  | [] => []
  | a :: as => a.renderBare :: Src.renderBareEach as
/-- `es.map fun (k, v) => (k.renderBare, v.renderBare)` -/
def Src.renderBareEntries : List (Src × Src) → List (Toks × Toks)
  | [] => []
  | (k, v) :: es => (k.renderBare, v.renderBare) :: Src.renderBareEntries es
end

theorem Src.renderBareEach_eq_map (as : List Src) : Src.renderBareEach as = as.map Src.renderBare := by
  induction as with
  | nil => simp [Src.renderBareEach]
  | cons a as ih => simp [Src.renderBareEach, ih]

theorem Src.renderBareEntries_eq_map (es : List (Src × Src)) :
    Src.renderBareEntries es = es.map fun p => (p.1.renderBare, p.2.renderBare) := by
  induction es with
  | nil => simp [Src.renderBareEntries]
  | cons p es ih => obtain ⟨k, v⟩ := p; simp [Src.renderBareEntries, ih]

theorem Src.length_renderBareEach (as : List Src) : (Src.renderBareEach as).length = as.length := by
  simp [Src.renderBareEach_eq_map]

theorem Src.length_renderBareEntries (es : List (Src × Src)) :
    (Src.renderBareEntries es).length = es.length := by
  simp [Src.renderBareEntries_eq_map]

/-- render `t` where a construct of binding strength at least `p` is required -/
def Src.renderAt (p : Nat) (t : Src) : Toks := wrapIf (t.prec < p) t.renderBare

/-- minimal parenthesisation of a whole program -/
def Src.renderMin (t : Src) : Toks := t.renderAt 0

/-! ## proof of the round trip

By induction on the tree.  For every tree `t` and every position `p`, the tokens `t.renderAt p` are
read by the parser function of level `p` (`Good.pa`), and by the loops of the left-recursive levels
in continuation form (`Good.c7`, `c5`, `c4`, `c3`; `CelModel/Lemmas/ParserMin.lean`).  `Bare` is
the same about `t.renderBare` at the level of the root node; `Bare.good` adds the parentheses. -/
section Proof
open Cel.Lemmas.ParserSteps Cel.Lemmas.ParserMin

mutual
/-- number of nodes, every argument / element / entry of a call or literal counting once more
(the fuel needed is proportional to it; every node writes at least one token, every argument a
separator or the closing token) -/
def nodes : Src → Nat
  | .ident _ => 1
  | .num _ => 1
  | .bin _ _ a b => nodes a + nodes b + 1
  | .not a => nodes a + 1
  | .neg a => nodes a + 1
  | .cond c a b => nodes c + nodes a + nodes b + 1
  | .index a i => nodes a + nodes i + 1
  | .select a _ => nodes a + 1
  | .call _ args => nodesList args + args.length + 1
  | .mcall t _ args => nodes t + nodesList args + args.length + 1
  | .list es => nodesList es + es.length + 1
  | .mapLit es => nodesEntries es + es.length + 1
def nodesList : List Src → Nat
  | [] => 0
  | a :: as => nodes a + nodesList as
def nodesEntries : List (Src × Src) → Nat
  | [] => 0
  | (k, v) :: es => nodes k + nodes v + nodesEntries es
end

theorem length_le_wrapIf (b : Bool) (ts : Toks) : ts.length ≤ (wrapIf b ts).length := by
  unfold wrapIf; split <;> simp <;> omega

mutual
theorem nodes_le_renderBare : (t : Src) → nodes t ≤ t.renderBare.length
  | .ident n => by simp [nodes, Src.renderBare]
  | .num n => by simp [nodes, Src.renderBare]
  | .bin sym nm a b => by
    have iha := nodes_le_renderBare a
    have ihb := nodes_le_renderBare b
    have ha := fun c => Nat.le_trans iha (length_le_wrapIf c a.renderBare)
    have hb := fun c => Nat.le_trans ihb (length_le_wrapIf c b.renderBare)
    simp only [Src.renderBare, nodes]
    split
    · have := ha (decide (a.prec < Src.prec (.bin sym nm a b) + 1))
      have := hb (decide (b.prec < Src.prec (.bin sym nm a b) + 1))
      simp only [List.length_append, List.length_cons, List.length_nil]; omega
    · have := ha (decide (a.prec < Src.prec (.bin sym nm a b)))
      have := hb (decide (b.prec < Src.prec (.bin sym nm a b) + 1))
      simp only [List.length_append, List.length_cons, List.length_nil]; omega
  | .not a => by
    have iha := nodes_le_renderBare a
    have := Nat.le_trans iha (length_le_wrapIf (decide (a.prec < 7)) a.renderBare)
    simp only [Src.renderBare, nodes, List.length_append, List.length_cons, List.length_nil]; omega
  | .neg a => by
    have iha := nodes_le_renderBare a
    have := Nat.le_trans iha (length_le_wrapIf (decide (a.prec < 7)) a.renderBare)
    simp only [Src.renderBare, nodes]
    split
    · rename_i heq; rw [heq] at this
      simp only [List.length_append, List.length_cons, List.length_nil] at this ⊢; omega
    · simp only [List.length_append, List.length_cons, List.length_nil]; omega
  | .cond c a b => by
    have ihc := nodes_le_renderBare c
    have iha := nodes_le_renderBare a
    have ihb := nodes_le_renderBare b
    have := Nat.le_trans ihc (length_le_wrapIf (decide (c.prec < 1)) c.renderBare)
    have := Nat.le_trans iha (length_le_wrapIf (decide (a.prec < 1)) a.renderBare)
    simp only [Src.renderBare, nodes, List.length_append, List.length_cons, List.length_nil]; omega
  | .index a i => by
    have iha := nodes_le_renderBare a
    have ihi := nodes_le_renderBare i
    have := Nat.le_trans iha (length_le_wrapIf (decide (a.prec < 7)) a.renderBare)
    simp only [Src.renderBare, nodes, List.length_append, List.length_cons, List.length_nil]; omega
  | .select a f => by
    have iha := nodes_le_renderBare a
    have := Nat.le_trans iha (length_le_wrapIf (decide (a.prec < 7)) a.renderBare)
    simp only [Src.renderBare, nodes, List.length_append, List.length_cons, List.length_nil]; omega
  | .call f args => by
    have := nodesList_le args
    have := length_sepTail_le (Src.renderBareEach args)
    simp only [Src.renderBare, nodes, List.length_append, List.length_cons, List.length_nil]; omega
  | .mcall t f args => by
    have iht := nodes_le_renderBare t
    have := Nat.le_trans iht (length_le_wrapIf (decide (t.prec < 7)) t.renderBare)
    have := nodesList_le args
    have := length_sepTail_le (Src.renderBareEach args)
    simp only [Src.renderBare, nodes, List.length_append, List.length_cons, List.length_nil]; omega
  | .list es => by
    have := nodesList_le es
    have := length_sepTail_le (Src.renderBareEach es)
    simp only [Src.renderBare, nodes, List.length_append, List.length_cons, List.length_nil]; omega
  | .mapLit es => by
    have := nodesEntries_le es
    have := length_sepEntTail_le (Src.renderBareEntries es)
    simp only [Src.renderBare, nodes, List.length_append, List.length_cons, List.length_nil]; omega
theorem nodesList_le : (as : List Src) →
    nodesList as + as.length ≤ (sepTail (Src.renderBareEach as)).length
  | [] => by simp [nodesList]
  | a :: as => by
    have := nodes_le_renderBare a
    have := nodesList_le as
    simp only [nodesList, Src.renderBareEach, sepTail, List.length_append, List.length_cons]; omega
theorem nodesEntries_le : (es : List (Src × Src)) →
    nodesEntries es + es.length ≤ (sepEntTail (Src.renderBareEntries es)).length
  | [] => by simp [nodesEntries]
  | (k, v) :: es => by
    have := nodes_le_renderBare k
    have := nodes_le_renderBare v
    have := nodesEntries_le es
    simp only [nodesEntries, Src.renderBareEntries, sepEntTail, List.length_append, List.length_cons]; omega
end

theorem prec_le (t : Src) : t.prec ≤ 7 := by
  cases t <;> simp only [Src.prec] <;> (repeat' split) <;> omega

theorem prec_ne {t : Src} {q p : Nat} (hq : t.prec = q) (hne : q ≠ p) : ¬ t.prec = p :=
  fun h => hne (hq ▸ h)

theorem renderAt_of_lt {t : Src} {p : Nat} (h : t.prec < p) :
    t.renderAt p = [.sym "("] ++ t.renderBare ++ [.sym ")"] := by
  simp [Src.renderAt, wrapIf, h]

theorem renderAt_of_le {t : Src} {p : Nat} (h : p ≤ t.prec) : t.renderAt p = t.renderBare := by
  simp [Src.renderAt, wrapIf, Nat.not_lt.mpr h]

theorem renderAt_succ {t : Src} {p : Nat} (h : t.prec ≠ p) : t.renderAt p = t.renderAt (p + 1) := by
  by_cases hlt : t.prec < p
  · rw [renderAt_of_lt hlt, renderAt_of_lt (by omega)]
  · rw [renderAt_of_le (by omega), renderAt_of_le (by omega)]

/-- what the induction carries about `t` in every position -/
structure Good (f : Nat) (t : Src) : Prop where
  pa : ∀ p, p ≤ 7 → ParsesAt p f (t.renderAt p) t.denote
  c7 : Cont7 f (t.renderAt 7) t.denote
  c5 : Cont5 f (t.renderAt 5) t.denote
  c4 : Cont4 f (t.renderAt 4) t.denote
  c3 : Cont3 f (t.renderAt 3) t.denote
  hd : HeadOk (t.renderAt 7)

/-- the same about the unparenthesised rendering, at the level of the root node -/
structure Bare (f : Nat) (t : Src) : Prop where
  pa : ParsesAt t.prec f t.renderBare t.denote
  c7 : t.prec = 7 → Cont7 f t.renderBare t.denote ∧ HeadOk t.renderBare
  c5 : t.prec = 5 → Cont5 f t.renderBare t.denote
  c4 : t.prec = 4 → Cont4 f t.renderBare t.denote
  c3 : t.prec = 3 → Cont3 f t.renderBare t.denote

theorem Bare.good {f f' : Nat} {t : Src} (h : Bare f t) (hf : f + 18 ≤ f') : Good f' t := by
  have hq := prec_le t
  have bare0 : ParsesAt 0 (f + 7) t.renderBare t.denote :=
    h.pa.down (Nat.zero_le _) hq (fun h7 => (h.c7 h7).2)
  have wC7 := cont7_paren bare0
  have wP7 := wC7.parsesAt
  have pa : ∀ p, p ≤ 7 → ParsesAt p (f + 16) (t.renderAt p) t.denote := by
    intro p hp
    by_cases hlt : t.prec < p
    · rw [renderAt_of_lt hlt]
      exact (wP7.down hp (Nat.le_refl _) (fun _ => headOk_paren _)).mono (by omega)
    · rw [renderAt_of_le (by omega)]
      exact (h.pa.down (by omega) hq (fun h7 => (h.c7 h7).2)).mono (by omega)
  refine ⟨fun p hp => (pa p hp).mono (by omega), ?_, ?_, ?_, ?_, ?_⟩
  · by_cases hlt : t.prec < 7
    · rw [renderAt_of_lt hlt]; exact wC7.mono (by omega)
    · rw [renderAt_of_le (by omega)]; exact (h.c7 (by omega)).1.mono (by omega)
  · by_cases h5 : t.prec = 5
    · rw [renderAt_of_le (by omega)]; exact (h.c5 h5).mono (by omega)
    · rw [renderAt_succ h5]; exact (Cont5.ofParsesAt (pa 6 (by omega))).mono (by omega)
  · by_cases h4 : t.prec = 4
    · rw [renderAt_of_le (by omega)]; exact (h.c4 h4).mono (by omega)
    · rw [renderAt_succ h4]; exact (Cont4.ofParsesAt (pa 5 (by omega))).mono (by omega)
  · by_cases h3 : t.prec = 3
    · rw [renderAt_of_le (by omega)]; exact (h.c3 h3).mono (by omega)
    · rw [renderAt_succ h3]; exact (Cont3.ofParsesAt (pa 4 (by omega))).mono (by omega)
  · by_cases hlt : t.prec < 7
    · rw [renderAt_of_lt hlt]; exact headOk_paren _
    · rw [renderAt_of_le (by omega)]; exact (h.c7 (by omega)).2

theorem bare_ident (n : Str) : Bare 1 (.ident n) where
  pa := (cont7_ident n).parsesAt
  c7 := fun _ => ⟨cont7_ident n, .ident n []⟩
  c5 := fun h => absurd h (prec_ne (q := 7) (p := 5) rfl (by decide))
  c4 := fun h => absurd h (prec_ne (q := 7) (p := 4) rfl (by decide))
  c3 := fun h => absurd h (prec_ne (q := 7) (p := 3) rfl (by decide))

theorem bare_num (n : Nat) (h : (n : Int) ≤ i64Max) : Bare 1 (.num n) where
  pa := (cont7_int _ _ (C13.int_literal_exact n h)).parsesAt
  c7 := fun _ => ⟨cont7_int _ _ (C13.int_literal_exact n h), .int _ []⟩
  c5 := fun h => absurd h (prec_ne (q := 7) (p := 5) rfl (by decide))
  c4 := fun h => absurd h (prec_ne (q := 7) (p := 4) rfl (by decide))
  c3 := fun h => absurd h (prec_ne (q := 7) (p := 3) rfl (by decide))

section
variable {fa fb fc : Nat} {a b c : Src}

theorem bare_select (ha : Good fa a) (f : Str) : Bare (fa + 1) (.select a f) where
  pa := (cont7_select ha.c7 f).parsesAt
  c7 := fun _ => ⟨cont7_select ha.c7 f, ha.hd.append _⟩
  c5 := fun h => absurd h (prec_ne (q := 7) (p := 5) rfl (by decide))
  c4 := fun h => absurd h (prec_ne (q := 7) (p := 4) rfl (by decide))
  c3 := fun h => absurd h (prec_ne (q := 7) (p := 3) rfl (by decide))

theorem bare_index (ha : Good fa a) (hb : Good fb b) : Bare (fa + fb + 2) (.index a b) := by
  have hB := hb.pa 0 (by omega)
  rw [renderAt_of_le (Nat.zero_le _)] at hB
  have hC := cont7_index ha.c7 hB
  exact {
    pa := hC.parsesAt
    c7 := fun _ => ⟨hC, by
      show HeadOk (a.renderAt 7 ++ [.sym "["] ++ b.renderBare ++ [.sym "]"])
      simp only [List.append_assoc]; exact ha.hd.append _⟩
    c5 := fun h => absurd h (prec_ne (q := 7) (p := 5) rfl (by decide))
    c4 := fun h => absurd h (prec_ne (q := 7) (p := 4) rfl (by decide))
    c3 := fun h => absurd h (prec_ne (q := 7) (p := 3) rfl (by decide)) }

theorem bare_call {fi : Nat} {args : List Src} (f : Str) (hf : FnName f)
    (hI : Items fi (Src.renderBareEach args) (Src.denoteList args)) :
    Bare (fi + (Src.renderBareEach args).length + 3) (.call f args) := by
  have hC := cont7_call hI f (hf.notMacro _ _)
  exact {
    pa := hC.parsesAt
    c7 := fun _ => ⟨hC, .ident f _⟩
    c5 := fun h => absurd h (prec_ne (q := 7) (p := 5) rfl (by decide))
    c4 := fun h => absurd h (prec_ne (q := 7) (p := 4) rfl (by decide))
    c3 := fun h => absurd h (prec_ne (q := 7) (p := 3) rfl (by decide)) }

theorem bare_mcall {fi : Nat} {args : List Src} (ha : Good fa a) (f : Str) (hf : FnName f)
    (hI : Items fi (Src.renderBareEach args) (Src.denoteList args)) :
    Bare (fa + fi + (Src.renderBareEach args).length + 3) (.mcall a f args) := by
  have hC := cont7_mcall ha.c7 hI f (hf.notMacro _ _)
  exact {
    pa := hC.parsesAt
    c7 := fun _ => ⟨hC, by
      show HeadOk (a.renderAt 7 ++ [.sym ".", .ident f, .sym "("] ++ sepList (Src.renderBareEach args) ++ [.sym ")"])
      simp only [List.append_assoc]; exact ha.hd.append _⟩
    c5 := fun h => absurd h (prec_ne (q := 7) (p := 5) rfl (by decide))
    c4 := fun h => absurd h (prec_ne (q := 7) (p := 4) rfl (by decide))
    c3 := fun h => absurd h (prec_ne (q := 7) (p := 3) rfl (by decide)) }

theorem bare_list {fi : Nat} {es : List Src}
    (hI : Items fi (Src.renderBareEach es) (Src.denoteList es)) :
    Bare (fi + (Src.renderBareEach es).length + 3) (.list es) := by
  have hC := cont7_list hI
  exact {
    pa := hC.parsesAt
    c7 := fun _ => ⟨hC, .brack _⟩
    c5 := fun h => absurd h (prec_ne (q := 7) (p := 5) rfl (by decide))
    c4 := fun h => absurd h (prec_ne (q := 7) (p := 4) rfl (by decide))
    c3 := fun h => absurd h (prec_ne (q := 7) (p := 3) rfl (by decide)) }

theorem bare_mapLit {fi : Nat} {es : List (Src × Src)}
    (hI : Entries fi (Src.renderBareEntries es) (Src.denoteEntries es)) :
    Bare (fi + (Src.renderBareEntries es).length + 3) (.mapLit es) := by
  have hC := cont7_map hI
  exact {
    pa := hC.parsesAt
    c7 := fun _ => ⟨hC, .brace _⟩
    c5 := fun h => absurd h (prec_ne (q := 7) (p := 5) rfl (by decide))
    c4 := fun h => absurd h (prec_ne (q := 7) (p := 4) rfl (by decide))
    c3 := fun h => absurd h (prec_ne (q := 7) (p := 3) rfl (by decide)) }

theorem bare_not (ha : Good fa a) : Bare (fa + 1) (.not a) where
  pa := parsesAt_not (ha.pa 7 (by omega)) ha.hd
  c7 := fun h => absurd h (prec_ne (q := 6) (p := 7) rfl (by decide))
  c5 := fun h => absurd h (prec_ne (q := 6) (p := 5) rfl (by decide))
  c4 := fun h => absurd h (prec_ne (q := 6) (p := 4) rfl (by decide))
  c3 := fun h => absurd h (prec_ne (q := 6) (p := 3) rfl (by decide))

theorem bare_neg (ha : Good fa a) : Bare (fa + 10) (.neg a) := by
  have hP : ParsesAt 6 (fa + 10) (Src.renderBare (.neg a)) (.call "-_" [a.denote]) := by
    have h7 := ha.pa 7 (by omega)
    have hh := ha.hd
    simp only [Src.renderBare]
    split
    · rename_i d rest heq
      change a.renderAt 7 = _ at heq
      rw [heq] at h7 hh
      have h0 := h7.down (Nat.zero_le 7) (Nat.le_refl _) (fun _ => hh)
      have hw := (cont7_paren h0).parsesAt
      exact parsesAt_neg_paren hw
    · rename_i hne
      exact (parsesAt_neg h7 hh (fun d r he => hne d r he)).mono (by omega)
  exact {
    pa := hP
    c7 := fun h => absurd h (prec_ne (q := 6) (p := 7) rfl (by decide))
    c5 := fun h => absurd h (prec_ne (q := 6) (p := 5) rfl (by decide))
    c4 := fun h => absurd h (prec_ne (q := 6) (p := 4) rfl (by decide))
    c3 := fun h => absurd h (prec_ne (q := 6) (p := 3) rfl (by decide)) }

theorem bare_cond (hc : Good fc c) (ha : Good fa a) (hb : Good fb b) :
    Bare (fc + fa + fb + 1) (.cond c a b) := by
  have hB := hb.pa 0 (by omega)
  rw [renderAt_of_le (Nat.zero_le _)] at hB
  exact {
    pa := parsesAt_cond (hc.pa 1 (by omega)) (ha.pa 1 (by omega)) hB
    c7 := fun h => absurd h (prec_ne (q := 0) (p := 7) rfl (by decide))
    c5 := fun h => absurd h (prec_ne (q := 0) (p := 5) rfl (by decide))
    c4 := fun h => absurd h (prec_ne (q := 0) (p := 4) rfl (by decide))
    c3 := fun h => absurd h (prec_ne (q := 0) (p := 3) rfl (by decide)) }

theorem bare_or (ha : Good fa a) (hb : Good fb b) : Bare (fa + fb + 2) (.bin "||" "_||_" a b) where
  pa := parsesAt_or (ha.pa 2 (by omega)) (hb.pa 2 (by omega))
  c7 := fun h => absurd h (prec_ne (q := 1) (p := 7) rfl (by decide))
  c5 := fun h => absurd h (prec_ne (q := 1) (p := 5) rfl (by decide))
  c4 := fun h => absurd h (prec_ne (q := 1) (p := 4) rfl (by decide))
  c3 := fun h => absurd h (prec_ne (q := 1) (p := 3) rfl (by decide))

theorem bare_and (ha : Good fa a) (hb : Good fb b) : Bare (fa + fb + 2) (.bin "&&" "_&&_" a b) where
  pa := parsesAt_and (ha.pa 3 (by omega)) (hb.pa 3 (by omega))
  c7 := fun h => absurd h (prec_ne (q := 2) (p := 7) rfl (by decide))
  c5 := fun h => absurd h (prec_ne (q := 2) (p := 5) rfl (by decide))
  c4 := fun h => absurd h (prec_ne (q := 2) (p := 4) rfl (by decide))
  c3 := fun h => absurd h (prec_ne (q := 2) (p := 3) rfl (by decide))

theorem bare_rel (ha : Good fa a) (hb : Good fb b) {s nm : String} (hop : relOpName s = some nm) :
    Bare (fa + fb + 2) (.bin s nm a b) := by
  have hs : (Src.bin s nm a b).prec = 3 ∧
      (Src.bin s nm a b).renderBare = a.renderAt 3 ++ [.sym s] ++ b.renderAt 4 := by
    rcases relOp_cases hop with rfl | rfl | rfl | rfl | rfl | rfl | rfl <;> exact ⟨rfl, rfl⟩
  have hC := cont3_rel ha.c3 (hb.pa 4 (by omega)) hop
  rw [← hs.2] at hC
  exact {
    pa := by rw [hs.1]; exact hC.parsesAt
    c7 := fun h => absurd (hs.1 ▸ h) (by decide)
    c5 := fun h => absurd (hs.1 ▸ h) (by decide)
    c4 := fun h => absurd (hs.1 ▸ h) (by decide)
    c3 := fun _ => hC }

theorem bare_add (ha : Good fa a) (hb : Good fb b) {s nm : String} (hop : addOpName s = some nm) :
    Bare (fa + fb + 2) (.bin s nm a b) := by
  have hs : (Src.bin s nm a b).prec = 4 ∧
      (Src.bin s nm a b).renderBare = a.renderAt 4 ++ [.sym s] ++ b.renderAt 5 := by
    rcases addOp_cases hop with rfl | rfl <;> exact ⟨rfl, rfl⟩
  have hC := cont4_add ha.c4 (hb.pa 5 (by omega)) hop
  rw [← hs.2] at hC
  exact {
    pa := by rw [hs.1]; exact hC.parsesAt
    c7 := fun h => absurd (hs.1 ▸ h) (by decide)
    c5 := fun h => absurd (hs.1 ▸ h) (by decide)
    c4 := fun _ => hC
    c3 := fun h => absurd (hs.1 ▸ h) (by decide) }

theorem bare_mul (ha : Good fa a) (hb : Good fb b) {s nm : String} (hop : mulOpName s = some nm) :
    Bare (fa + fb + 2) (.bin s nm a b) := by
  have hs : (Src.bin s nm a b).prec = 5 ∧
      (Src.bin s nm a b).renderBare = a.renderAt 5 ++ [.sym s] ++ b.renderAt 6 := by
    rcases mulOp_cases hop with rfl | rfl | rfl <;> exact ⟨rfl, rfl⟩
  have hC := cont5_mul ha.c5 (hb.pa 6 (by omega)) hop
  rw [← hs.2] at hC
  exact {
    pa := by rw [hs.1]; exact hC.parsesAt
    c7 := fun h => absurd (hs.1 ▸ h) (by decide)
    c5 := fun _ => hC
    c4 := fun h => absurd (hs.1 ▸ h) (by decide)
    c3 := fun h => absurd (hs.1 ▸ h) (by decide) }
end

mutual
theorem good_of_wf : (t : Src) → t.WF → Good (30 * nodes t) t
  | .ident n, _ => (bare_ident n).good (by simp only [nodes]; omega)
  | .num n, h => (bare_num n h).good (by simp only [nodes]; omega)
  | .bin sym nm a b, h => by
    simp only [Src.WF] at h
    obtain ⟨hop, ha, hb⟩ := h
    have iha := good_of_wf a ha
    have ihb := good_of_wf b hb
    have hf : 30 * nodes a + 30 * nodes b + 2 + 18 ≤ 30 * nodes (.bin sym nm a b) := by
      simp only [nodes]; omega
    simp only [binTable, List.mem_cons, Prod.mk.injEq, List.mem_nil_iff, or_false] at hop
    rcases hop with ⟨rfl, rfl⟩ | ⟨rfl, rfl⟩ | ⟨rfl, rfl⟩ | ⟨rfl, rfl⟩ | ⟨rfl, rfl⟩ | ⟨rfl, rfl⟩ | ⟨rfl, rfl⟩ |
      ⟨rfl, rfl⟩ | ⟨rfl, rfl⟩ | ⟨rfl, rfl⟩ | ⟨rfl, rfl⟩ | ⟨rfl, rfl⟩ | ⟨rfl, rfl⟩ | ⟨rfl, rfl⟩
    · exact (bare_or iha ihb).good hf
    · exact (bare_and iha ihb).good hf
    · exact (bare_rel iha ihb rfl).good hf
    · exact (bare_rel iha ihb rfl).good hf
    · exact (bare_rel iha ihb rfl).good hf
    · exact (bare_rel iha ihb rfl).good hf
    · exact (bare_rel iha ihb rfl).good hf
    · exact (bare_rel iha ihb rfl).good hf
    · exact (bare_rel iha ihb rfl).good hf
    · exact (bare_add iha ihb rfl).good hf
    · exact (bare_add iha ihb rfl).good hf
    · exact (bare_mul iha ihb rfl).good hf
    · exact (bare_mul iha ihb rfl).good hf
    · exact (bare_mul iha ihb rfl).good hf
  | .not a, h => by
    simp only [Src.WF] at h
    exact (bare_not (good_of_wf a h)).good (by simp only [nodes]; omega)
  | .neg a, h => by
    simp only [Src.WF] at h
    exact (bare_neg (good_of_wf a h)).good (by simp only [nodes]; omega)
  | .cond c a b, h => by
    simp only [Src.WF] at h
    obtain ⟨hc, ha, hb⟩ := h
    exact (bare_cond (good_of_wf c hc) (good_of_wf a ha) (good_of_wf b hb)).good (by simp only [nodes]; omega)
  | .index a i, h => by
    simp only [Src.WF] at h
    obtain ⟨ha, hi⟩ := h
    exact (bare_index (good_of_wf a ha) (good_of_wf i hi)).good (by simp only [nodes]; omega)
  | .select a f, h => by
    simp only [Src.WF] at h
    exact (bare_select (good_of_wf a h.1) f).good (by simp only [nodes]; omega)
  | .call f args, h => by
    simp only [Src.WF] at h
    have hlen := Src.length_renderBareEach args
    exact (bare_call f h.1 (goodList args h.2)).good (by simp only [nodes]; omega)
  | .mcall t f args, h => by
    simp only [Src.WF] at h
    have hlen := Src.length_renderBareEach args
    exact (bare_mcall (good_of_wf t h.1) f h.2.1 (goodList args h.2.2)).good (by simp only [nodes]; omega)
  | .list es, h => by
    simp only [Src.WF] at h
    have hlen := Src.length_renderBareEach es
    exact (bare_list (goodList es h)).good (by simp only [nodes]; omega)
  | .mapLit es, h => by
    simp only [Src.WF] at h
    have hlen := Src.length_renderBareEntries es
    exact (bare_mapLit (goodEntries es h)).good (by simp only [nodes]; omega)
/-- the arguments / elements, written at level 0, are read one by one -/
theorem goodList : (as : List Src) → Src.WFList as →
    Items (30 * nodesList as) (Src.renderBareEach as) (Src.denoteList as)
  | [], _ => .nil
  | a :: as, h => by
    simp only [Src.WFList] at h
    have hA := (good_of_wf a h.1).pa 0 (by omega)
    rw [renderAt_of_le (Nat.zero_le _)] at hA
    simp only [Src.renderBareEach, Src.denoteList]
    exact .cons (hA.mono (by simp only [nodesList]; omega))
      ((goodList as h.2).mono (by simp only [nodesList]; omega))
theorem goodEntries : (es : List (Src × Src)) → Src.WFEntries es →
    Entries (30 * nodesEntries es) (Src.renderBareEntries es) (Src.denoteEntries es)
  | [], _ => .nil
  | (k, v) :: es, h => by
    simp only [Src.WFEntries] at h
    have hK := (good_of_wf k h.1).pa 0 (by omega)
    have hV := (good_of_wf v h.2.1).pa 0 (by omega)
    rw [renderAt_of_le (Nat.zero_le _)] at hK hV
    simp only [Src.renderBareEntries, Src.denoteEntries]
    exact .cons (hK.mono (by simp only [nodesEntries]; omega)) (hV.mono (by simp only [nodesEntries]; omega))
      ((goodEntries es h.2.2).mono (by simp only [nodesEntries]; omega))
end

end Proof

/-- ROUND TRIP (minimal parenthesisation) -/
theorem parse_render_minimal (t : Src) (h : t.WF) : parseTop t.renderMin = some t.denote := by
  have hG := good_of_wf t h
  have hlen : nodes t ≤ t.renderMin.length := by
    show _ ≤ (t.renderAt 0).length
    rw [renderAt_of_le (Nat.zero_le _)]
    exact nodes_le_renderBare t
  have hE : parseExpr (40 * (t.renderMin.length + 2) - 1 + 1) (t.renderMin ++ []) = some (t.denote, []) :=
    hG.pa 0 (by omega) (40 * (t.renderMin.length + 2) - 1) [] (by omega) (by simp [Cel.Lemmas.ParserSteps.lvl_empty])
  rw [List.append_nil, show 40 * (t.renderMin.length + 2) - 1 + 1 = 40 * (t.renderMin.length + 2) by omega] at hE
  unfold parseTop
  rw [hE]

/-! non-vacuity: `a || b && c`, `(a || b) && c`, `a - (b - c)`, `a - b - c`, `-(1)`, `!(!a)`,
`c ? x : (d ? y : z)` written minimally -/
def vA : Src := .ident "a".toList
def vB : Src := .ident "b".toList
def vC : Src := .ident "c".toList

example : (Src.bin "||" "_||_" vA (.bin "&&" "_&&_" vB vC)).renderMin =
    [.ident "a".toList, .sym "||", .ident "b".toList, .sym "&&", .ident "c".toList] := by decide
example : (Src.bin "&&" "_&&_" (.bin "||" "_||_" vA vB) vC).renderMin =
    [.sym "(", .ident "a".toList, .sym "||", .ident "b".toList, .sym ")", .sym "&&", .ident "c".toList] := by decide
example : (Src.bin "-" "_-_" vA (.bin "-" "_-_" vB vC)).renderMin =
    [.ident "a".toList, .sym "-", .sym "(", .ident "b".toList, .sym "-", .ident "c".toList, .sym ")"] := by decide
example : (Src.bin "-" "_-_" (.bin "-" "_-_" vA vB) vC).renderMin =
    [.ident "a".toList, .sym "-", .ident "b".toList, .sym "-", .ident "c".toList] := by decide
example : (Src.cond vC vA (.cond vC vA vB)).renderMin =
    [.ident "c".toList, .sym "?", .ident "a".toList, .sym ":", .ident "c".toList, .sym "?", .ident "a".toList, .sym ":", .ident "b".toList] := by decide

/-- `f(a, b + c).g([d], {e: f})[0] * 2` (`exCall` of `Props/C04.lean`) needs no parentheses at all -/
example : exCall.renderMin =
    [.ident "f".toList, .sym "(", .ident "a".toList, .sym ",", .ident "b".toList, .sym "+", .ident "c".toList, .sym ")",
     .sym ".", .ident "g".toList, .sym "(", .sym "[", .ident "d".toList, .sym "]", .sym ",",
       .sym "{", .ident "e".toList, .sym ":", .ident "f".toList, .sym "}", .sym ")",
     .sym "[", .int "0".toList, .sym "]", .sym "*", .int "2".toList] := by decide

example : parseTop exCall.renderMin = some exCall.denote :=
  parse_render_minimal _ (by
    simp [exCall, Src.WF, Src.WFList, Src.WFEntries, FnName, macroNames, binTable, i64Max])

/-- a conditional as an argument and a sum as a receiver: `(a + b).f(c ? a : b)` -/
example : (Src.mcall (.bin "+" "_+_" vA vB) "f".toList [.cond vC vA vB]).renderMin =
    [.sym "(", .ident "a".toList, .sym "+", .ident "b".toList, .sym ")", .sym ".", .ident "f".toList, .sym "(",
     .ident "c".toList, .sym "?", .ident "a".toList, .sym ":", .ident "b".toList, .sym ")"] := by decide

end Cel.Props.C04
