import CelModel.Props.C11
/-!
# C11 (second part) — nested macros that reuse a name; arbitrarily deep scope histories

* two nested macro scopes binding the same iteration variable: the body of the inner one sees the
  inner element, and once the inner scope is dropped the outer element is back, exactly;
* for any stack of inner scopes opened on a context and any definitions made in them, dropping
  the scopes one by one gives back the original context: no depth of nesting leaks into a parent;
* a name that no scope of the chain defines stays absent whatever inner scopes are opened on top
  without defining it.
-/
namespace Cel.Props.C11
open Cel

/-- nested macros reusing the variable name: the innermost element wins inside … -/
theorem nested_reuse_innermost_wins (c : Ctx) (v : String) (a1 x1 a2 x2 : Value)
    (hv : v ≠ Macros.accu) (st : St Value) :
    eval ((c.push [(Macros.accu, a1), (v, x1)]).push [(Macros.accu, a2), (v, x2)]) (.ident v) st
      = (.ok x2, tickSt st) :=
  macro_var_denotes_current_element (c.push [(Macros.accu, a1), (v, x1)]) v a2 x2 hv st

/-- … and after the inner macro the outer element is what the name denotes again -/
theorem nested_reuse_outer_restored (c : Ctx) (v : String) (a1 x1 a2 x2 : Value)
    (hv : v ≠ Macros.accu) (st : St Value) :
    ((c.push [(Macros.accu, a1), (v, x1)]).push [(Macros.accu, a2), (v, x2)]).pop
      = c.push [(Macros.accu, a1), (v, x1)] ∧
    eval (((c.push [(Macros.accu, a1), (v, x1)]).push [(Macros.accu, a2), (v, x2)]).pop) (.ident v) st
      = (.ok x1, tickSt st) := by
  have hp : ((c.push [(Macros.accu, a1), (v, x1)]).push [(Macros.accu, a2), (v, x2)]).pop
      = c.push [(Macros.accu, a1), (v, x1)] := rfl
  exact ⟨hp, by rw [hp]; exact macro_var_denotes_current_element c v a1 x1 hv st⟩

/-- inside nested macros with *different* variables both elements are visible, each under its own
name -/
theorem nested_distinct_both_visible (c : Ctx) (v w : String) (a1 x1 a2 x2 : Value)
    (hv : v ≠ Macros.accu) (hw : w ≠ Macros.accu) (hvw : v ≠ w) :
    ((c.push [(Macros.accu, a1), (v, x1)]).push [(Macros.accu, a2), (w, x2)]).getVariable w = some x2 ∧
    ((c.push [(Macros.accu, a1), (v, x1)]).push [(Macros.accu, a2), (w, x2)]).getVariable v = some x1 := by
  have h1 : (Macros.accu == w) = false := by simp; exact fun h => hw h.symm
  have h2 : (Macros.accu == v) = false := by simp; exact fun h => hv h.symm
  have h3 : (w == v) = false := by simp; exact fun h => hvw h.symm
  constructor <;>
    simp [Ctx.push, Ctx.getVariable, Ctx.getVar, Ctx.lookupScope, h1, h2, h3]

/-- one level: an inner scope opened with any initial bindings, then any definitions in it, then
dropped - the parent is exactly what it was (generalises `drop_restores_parent` to scopes that
start non-empty, as macro scopes do) -/
theorem drop_restores_parent_any_scope (c : Ctx) (s0 : Scope) (defs : List (String × Value))
    (hs : c.scopes ≠ []) :
    (defs.foldl (fun c' d => c'.bind d.1 d.2) (c.push s0)).pop = c := by
  have key : ∀ (defs : List (String × Value)) (s : Scope),
      (defs.foldl (fun c' d => Ctx.bind c' d.1 d.2) { c with scopes := s :: c.scopes }).pop = c := by
    intro defs
    induction defs with
    | nil =>
      intro s
      match hsc : c.scopes, hs with
      | s1 :: rest, _ =>
        simp only [List.foldl_nil, Ctx.pop]
        cases c; simp_all
    | cons d ds ih =>
      intro s
      simp only [List.foldl_cons]
      have : Ctx.bind { c with scopes := s :: c.scopes } d.1 d.2
          = { c with scopes := Ctx.scopeInsert s d.1 d.2 :: c.scopes } := rfl
      rw [this]
      exact ih _
  exact key defs s0

/-- any depth: open a scope, define in it, open another on top, define there, … then drop them
all - the original context is back. `levels` lists, innermost last, the initial bindings of each
opened scope and the definitions made in it before the next one is opened. -/
theorem drop_all_restores (c : Ctx) (levels : List (Scope × List (String × Value)))
    (hs : c.scopes ≠ []) :
    Nat.repeat Ctx.pop levels.length
      (levels.foldl (fun c' lv => lv.2.foldl (fun c'' d => c''.bind d.1 d.2) (c'.push lv.1)) c) = c := by
  induction levels generalizing c with
  | nil => rfl
  | cons lv rest ih =>
    simp only [List.foldl_cons, List.length_cons]
    -- the context after the first level
    generalize hc1 : lv.2.foldl (fun c'' d => Ctx.bind c'' d.1 d.2) (c.push lv.1) = c1
    have hpop : c1.pop = c := by rw [← hc1]; exact drop_restores_parent_any_scope c lv.1 lv.2 hs
    have hne : c1.scopes ≠ [] := by
      rw [← hc1]
      have : ∀ (defs : List (String × Value)) (c0 : Ctx), c0.scopes ≠ [] →
          (defs.foldl (fun c'' d => Ctx.bind c'' d.1 d.2) c0).scopes ≠ [] := by
        intro defs
        induction defs with
        | nil => intro c0 h; exact h
        | cons d ds ihd =>
          intro c0 h
          simp only [List.foldl_cons]
          apply ihd
          unfold Ctx.bind
          split <;> simp
      exact this _ _ (by simp [Ctx.push])
    have hrep : ∀ (n : Nat) (x : Ctx), Nat.repeat Ctx.pop (n + 1) x = Ctx.pop (Nat.repeat Ctx.pop n x) := by
      intro n x; rfl
    rw [hrep, ih c1 hne, hpop]

/-- a name nobody defines stays absent under any stack of scopes that do not define it -/
theorem absent_stays_absent (c : Ctx) (ss : List Scope) (n : String)
    (hc : c.getVariable n = none) (hss : ∀ s ∈ ss, Ctx.lookupScope s n = none) :
    (ss.foldl Ctx.push c).getVariable n = none := by
  induction ss generalizing c with
  | nil => exact hc
  | cons s rest ih =>
    simp only [List.foldl_cons]
    apply ih
    · rw [inner_scope_sees_outer c s n (hss s (by simp))]; exact hc
    · intro s' hs'; exact hss s' (by simp [hs'])

/-! ### non-vacuity -/
example : Nat.repeat Ctx.pop 2
    ([(([] : Scope), [("x", Value.int 2)]), ([("y", Value.int 3)], [("x", Value.int 4)])].foldl
      (fun c' lv => lv.2.foldl (fun c'' d => c''.bind d.1 d.2) (c'.push lv.1))
      (({} : Ctx).bind "x" (.int 1))) = (({} : Ctx).bind "x" (.int 1)) := by
  rfl

end Cel.Props.C11
