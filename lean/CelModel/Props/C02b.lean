import CelModel.Props.C02
import CelModel.Props.C01
import CelModel.Lemmas.ParserCompiled
/-!
# C02 (continued) — from source text to outcome: compiling and executing never panics

`execute_no_panic` (C02) holds for every tree without an `Expr.unspecified` node — "what
`Program::compile` can produce".  Here that side condition is discharged against the parser model:
whatever text the parser accepts, the tree it builds (macro expansions included) contains no such
node.  Together: for every source text and every context, compiling and then executing ends in a
value or an error, never a panic — one statement spanning the lexer, the parser, macro expansion
and the evaluator.
-/
namespace Cel.Props.C02
open Cel Cel.Parser

/-- every tree the parser builds — from any token sequence — is free of `unspecified` nodes -/
theorem parseTop_compiled (ts : Toks) (e : Expr) (h : parseTop ts = some e) :
    Compiled e = true := by
  unfold parseTop at h
  split at h
  · rename_i e' h1
    cases h
    exact ParserCompiled.parseExpr_compiled h1
  · cases h

/-- … hence every compiled program -/
theorem compile_compiled (src : Str) (e : Expr) (h : compile src = some e) : Compiled e = true := by
  unfold compile at h
  split at h
  · cases h
  · split at h
    · exact parseTop_compiled _ _ h
    · cases h

/-- END TO END: for every source text and every context, `Program::compile(src)` followed by
`execute(ctx)` is a compile error, a value or an execution error — never a panic -/
theorem compile_execute_no_panic (src : Str) (ctx : Ctx) (e : Expr) (h : compile src = some e) :
    ((execute ctx e).1).isPanic = false :=
  execute_no_panic e (compile_compiled src e h) ctx

end Cel.Props.C02
