import CelModel.Props.C06
/-!
# C06 (second part) — the skipped operand is irrelevant, at every depth

"Not evaluated" said as an independence statement: when the first operand decides, the whole
result of the evaluation - outcome, host-call log, step counter - is the same whatever the
skipped operand is (one that fails, panics, logs or never ends included). The nested forms state
the same for chains and for a conditional inside a skipped operand: a decision taken at depth two
leaves everything to its right unevaluated at both levels.
-/
namespace Cel.Props.C06
open Cel

/-- `a && b` with `a` false does not depend on `b` -/
theorem and_independent_of_skipped (ctx : Ctx) (a b b' : Expr) (st st1 : St Value) (v : Value)
    (h : eval ctx a (tickSt st) = (.ok v, st1)) (hv : v.truthy = false) :
    eval ctx (.call "_&&_" [a, b]) st = eval ctx (.call "_&&_" [a, b']) st := by
  rw [and_skips_right ctx a b st st1 v h hv, and_skips_right ctx a b' st st1 v h hv]

/-- `a || b` with `a` true does not depend on `b` -/
theorem or_independent_of_skipped (ctx : Ctx) (a b b' : Expr) (st st1 : St Value) (v : Value)
    (h : eval ctx a (tickSt st) = (.ok v, st1)) (hv : v.truthy = true) :
    eval ctx (.call "_||_" [a, b]) st = eval ctx (.call "_||_" [a, b']) st := by
  rw [or_skips_right ctx a b st st1 v h hv, or_skips_right ctx a b' st st1 v h hv]

/-- `c ? x : y` does not depend on the branch that is not selected -/
theorem cond_independent_of_unselected (ctx : Ctx) (c x y x' y' : Expr) (st st1 : St Value) (cv : Value)
    (h : eval ctx c (tickSt st) = (.ok cv, st1)) :
    (cv.truthy = true → eval ctx (.call "_?_:_" [c, x, y]) st = eval ctx (.call "_?_:_" [c, x, y']) st) ∧
    (cv.truthy = false → eval ctx (.call "_?_:_" [c, x, y]) st = eval ctx (.call "_?_:_" [c, x', y]) st) := by
  constructor <;> intro ht <;>
    simp [cond_evaluates_one_branch ctx c _ _ st st1 cv h, ht]

/-- a failing first operand makes the other operands irrelevant too -/
theorem error_independent_of_rest (ctx : Ctx) (a b c b' c' : Expr) (st st1 : St Value) (e : ErrC)
    (h : eval ctx a (tickSt st) = (.err e, st1)) :
    eval ctx (.call "_&&_" [a, b]) st = eval ctx (.call "_&&_" [a, b']) st ∧
    eval ctx (.call "_||_" [a, b]) st = eval ctx (.call "_||_" [a, b']) st ∧
    eval ctx (.call "_?_:_" [a, b, c]) st = eval ctx (.call "_?_:_" [a, b', c']) st := by
  have h1 := first_operand_error_aborts ctx a b c st st1 e h
  have h2 := first_operand_error_aborts ctx a b' c' st st1 e h
  exact ⟨h1.1.trans h2.1.symm, h1.2.1.trans h2.2.1.symm, h1.2.2.trans h2.2.2.symm⟩

/-- `(a && b) && c` with `a` false: neither `b` nor `c` is evaluated - the state is the one `a` left -/
theorem and_chain_skips_all (ctx : Ctx) (a b c : Expr) (st st1 : St Value) (v : Value)
    (h : eval ctx a (tickSt (tickSt st)) = (.ok v, st1)) (hv : v.truthy = false) :
    eval ctx (.call "_&&_" [.call "_&&_" [a, b], c]) st = (.ok (.bool false), st1) := by
  have hin := and_skips_right ctx a b (tickSt st) st1 v h hv
  exact and_skips_right ctx _ c st st1 (.bool false) hin rfl

/-- `(a || b) || c` with `a` true: neither `b` nor `c` is evaluated -/
theorem or_chain_skips_all (ctx : Ctx) (a b c : Expr) (st st1 : St Value) (v : Value)
    (h : eval ctx a (tickSt (tickSt st)) = (.ok v, st1)) (hv : v.truthy = true) :
    eval ctx (.call "_||_" [.call "_||_" [a, b], c]) st = (.ok v, st1) := by
  have hin := or_skips_right ctx a b (tickSt st) st1 v h hv
  exact or_skips_right ctx _ c st st1 v hin hv

/-- a conditional whose condition is a decided conjunction: `(a && b) ? x : y` with `a` false
evaluates `a` and `y` and nothing else -/
theorem cond_on_decided_and (ctx : Ctx) (a b x y : Expr) (st st1 : St Value) (v : Value)
    (h : eval ctx a (tickSt (tickSt st)) = (.ok v, st1)) (hv : v.truthy = false) :
    eval ctx (.call "_?_:_" [.call "_&&_" [a, b], x, y]) st = eval ctx y st1 := by
  have hin := and_skips_right ctx a b (tickSt st) st1 v h hv
  rw [cond_evaluates_one_branch ctx _ x y st st1 (.bool false) hin]
  rfl

/-- the skipped operand may itself contain operators and conditionals: nothing in it runs.
`a && (c ? x : y)` and `a && (p || q)` with `a` false are `false` in the state `a` left. -/
theorem and_skips_compound_right (ctx : Ctx) (a c x y p q : Expr) (st st1 : St Value) (v : Value)
    (h : eval ctx a (tickSt st) = (.ok v, st1)) (hv : v.truthy = false) :
    eval ctx (.call "_&&_" [a, .call "_?_:_" [c, x, y]]) st = (.ok (.bool false), st1) ∧
    eval ctx (.call "_&&_" [a, .call "_||_" [p, q]]) st = (.ok (.bool false), st1) :=
  ⟨and_skips_right ctx a _ st st1 v h hv, and_skips_right ctx a _ st st1 v h hv⟩

-- non-vacuity: a concrete program meeting the hypotheses of the chain theorem
example : (eval {} (.call "_&&_" [.call "_&&_" [.lit (.bool false), .unspecified], .ident "undeclared"]) {}).1
    = .ok (.bool false) := by
  rw [and_chain_skips_all {} _ _ _ {} (tickSt (tickSt (tickSt {}))) (.bool false)] <;> rfl

end Cel.Props.C06
