import CelModel.Lemmas.Sat
import CelModel.Props.C08
/-!
# C02 — evaluating a compiled program never panics

`Program::compile` never produces an `Expr::Unspecified` node.  For every such tree, every
context (any variables, any registered functions including host functions of any signature, any
regex table) and every start state, `eval` yields a value or an execution error.
-/
namespace Cel.Props.C02
open Cel

/-! ## Compiled programs -/

mutual
/-- no `Expr.unspecified` node anywhere in the tree (what `Program::compile` can produce) -/
def Compiled : Expr → Bool
  | .lit _ => true
  | .ident _ => true
  | .call _ args => CompiledList args
  | .mcall _ t args => Compiled t && CompiledList args
  | .select e _ _ => Compiled e
  | .list es => CompiledList es
  | .map es => CompiledEntries es
  | .struct _ _ vs => CompiledList vs
  | .comp _ r _ i c s res => Compiled r && Compiled i && Compiled c && Compiled s && Compiled res
  | .unspecified => false
def CompiledList : List Expr → Bool
  | [] => true
  | e :: es => Compiled e && CompiledList es
def CompiledEntries : List (Expr × Expr) → Bool
  | [] => true
  | (k, v) :: es => Compiled k && Compiled v && CompiledEntries es
end

/-! ## Operators on values -/

theorem relOp_no_panic (op : BinOp) (a b : Value) : (relOp op a b).isPanic = false := by
  unfold relOp
  split
  · rfl
  · cases op <;> rfl

theorem inOp_no_panic (a b : Value) : (inOp a b).isPanic = false := by
  unfold inOp
  split
  · rfl
  · rfl
  · split <;> rfl
  · rfl

theorem indexOp_no_panic (a b : Value) : (indexOp a b).isPanic = false := by
  unfold indexOp
  split
  · split <;> rfl
  · split
    · split <;> rfl
    · rfl
  all_goals rfl

/-- every strict binary operator on values never panics -/
theorem applyBin_no_panic (op : BinOp) (a b : Value) : (applyBin op a b).isPanic = false := by
  cases op <;> simp only [applyBin] <;>
    first
    | exact C08.arith_no_panic _ _ _
    | exact relOp_no_panic _ _ _
    | exact inOp_no_panic _ _
    | exact indexOp_no_panic _ _
    | rfl

/-- every unary operator on values never panics -/
theorem applyUn_no_panic (op : UnOp) (v : Value) : (applyUn op v).isPanic = false := by
  cases op
  · rfl
  · cases v <;> simp only [applyUn] <;> try rfl
    rw [C08.map_isPanic]
    simp only [intNeg, chk]
    split <;> rfl
  · cases v <;> rfl

/-! ## Built-in functions -/

theorem sizeFn_no_panic (v : Value) : (sizeFn v).isPanic = false := by
  cases v <;> rfl

theorem containsFn_no_panic (t a : Value) : (containsFn t a).isPanic = false := by
  unfold containsFn
  split
  · rfl
  · split <;> rfl
  · split <;> rfl
  · split <;> rfl
  · rfl

theorem stringFn_no_panic (v : Value) : (stringFn v).isPanic = false := by
  cases v <;> rfl

theorem doubleFn_no_panic (v : Value) : (doubleFn v).isPanic = false := by
  cases v <;> simp only [doubleFn] <;> (repeat' split) <;> rfl

theorem uintFn_no_panic (v : Value) : (uintFn v).isPanic = false := by
  cases v <;> simp only [uintFn] <;> (repeat' split) <;> rfl

theorem intFn_no_panic (v : Value) : (intFn v).isPanic = false := by
  cases v <;> simp only [intFn] <;> (repeat' split) <;> rfl

theorem extremumFold_no_panic (g : Bool) (acc : Value) (xs : List Value) :
    (extremumFold g acc xs).isPanic = false := by
  induction xs generalizing acc with
  | nil => rfl
  | cons x xs ih =>
    unfold extremumFold
    split
    · rfl
    · exact ih _

theorem extremumFn_no_panic (g : Bool) (args : List Value) : (extremumFn g args).isPanic = false := by
  unfold extremumFn
  split <;> dsimp only <;> (try split) <;> (first | rfl | exact extremumFold_no_panic _ _ _)

/-! ### the shape of extracted parameters -/

/-- what `FromValue for T` guarantees about the value it returns -/
def tyOk : ExtTy → Value → Bool
  | .value, _ => true
  | .int, .int _ => true
  | .uint, .uint _ => true
  | .dbl, .dbl _ => true
  | .str, .str _ => true
  | .bytes, .bytes _ => true
  | .bool, .bool _ => true
  | .list, .list _ => true
  | .dur, .dur _ => true
  | .ts, .ts _ _ => true
  | _, _ => false

/-- what one extractor guarantees about the parameter it produces -/
def ExtOk : Extractor → Value → Prop
  | .this t, v => tyOk t v = true
  | .thisOpt t, v => v = .null ∨ tyOk t v = true
  | .pos t, v => tyOk t v = true
  | .posOpt t, v => v = .null ∨ tyOk t v = true
  | .allArgs, v => ∃ vs, v = .list vs
  | .ident, v => ∃ s, v = .str s
  | .expr, v => ∃ s, v = .str s

/-- the parameter list has one well-shaped parameter per extractor of the signature -/
def MatchesSig : List Extractor → List Value → Prop
  | [], [] => True
  | ex :: sig, p :: ps => ExtOk ex p ∧ MatchesSig sig ps
  | _, _ => False

theorem fromValue_sound (t : ExtTy) (v w : Value) (h : fromValue t v = .ok w) : tyOk t w = true := by
  cases t <;> cases v <;> simp [fromValue] at h <;> subst h <;> rfl

theorem fromValueOpt_sound (t : ExtTy) (v w : Value) (h : fromValueOpt t v = .ok w) :
    w = .null ∨ tyOk t w = true := by
  unfold fromValueOpt at h
  split at h
  · left; cases h; rfl
  · right; exact fromValue_sound t v w h

theorem fromValue_no_panic (t : ExtTy) (v : Value) : (fromValue t v).isPanic = false := by
  cases t <;> cases v <;> rfl

theorem fromValueOpt_no_panic (t : ExtTy) (v : Value) : (fromValueOpt t v).isPanic = false := by
  unfold fromValueOpt
  split
  · rfl
  · exact fromValue_no_panic _ _

theorem matchesSig_one {ex : Extractor} {ps : List Value} (h : MatchesSig [ex] ps) :
    ∃ p, ps = [p] ∧ ExtOk ex p := by
  match ps, h with
  | [p], h => exact ⟨p, rfl, h.1⟩
  | _ :: _ :: _, h => exact h.2.elim

theorem matchesSig_two {e1 e2 : Extractor} {ps : List Value} (h : MatchesSig [e1, e2] ps) :
    ∃ p q, ps = [p, q] ∧ ExtOk e1 p ∧ ExtOk e2 q := by
  match ps, h with
  | [_], h => exact h.2.elim
  | [p, q], h => exact ⟨p, q, rfl, h.1, h.2.1⟩
  | _ :: _ :: _ :: _, h => exact h.2.2.elim

theorem tyOk_str {v : Value} (h : tyOk .str v = true) : ∃ s, v = .str s := by
  cases v <;> simp [tyOk] at h
  exact ⟨_, rfl⟩

theorem tyOk_ts {v : Value} (h : tyOk .ts v = true) : ∃ t o, v = .ts t o := by
  cases v <;> simp [tyOk] at h
  exact ⟨_, _, rfl⟩

/-- a built-in applied to parameters of the shape of its own signature never panics -/
theorem applyBuiltin_no_panic (ctx : Ctx) (b : Builtin) (ps : List Value)
    (h : MatchesSig b.sig ps) : (applyBuiltin ctx b ps).isPanic = false := by
  cases b <;> simp only [Builtin.sig] at h
  case contains =>
    obtain ⟨p, q, rfl, -, -⟩ := matchesSig_two h
    exact containsFn_no_panic p q
  case size =>
    obtain ⟨p, rfl, -⟩ := matchesSig_one h
    exact sizeFn_no_panic p
  case max =>
    obtain ⟨p, rfl, ⟨vs, rfl⟩⟩ := matchesSig_one h
    exact extremumFn_no_panic true vs
  case min =>
    obtain ⟨p, rfl, ⟨vs, rfl⟩⟩ := matchesSig_one h
    exact extremumFn_no_panic false vs
  case startsWith =>
    obtain ⟨p, q, rfl, hp, hq⟩ := matchesSig_two h
    obtain ⟨s, rfl⟩ := tyOk_str hp
    obtain ⟨t, rfl⟩ := tyOk_str hq
    rfl
  case endsWith =>
    obtain ⟨p, q, rfl, hp, hq⟩ := matchesSig_two h
    obtain ⟨s, rfl⟩ := tyOk_str hp
    obtain ⟨t, rfl⟩ := tyOk_str hq
    rfl
  case string =>
    obtain ⟨p, rfl, -⟩ := matchesSig_one h
    exact stringFn_no_panic p
  case bytes =>
    obtain ⟨p, rfl, hp⟩ := matchesSig_one h
    obtain ⟨s, rfl⟩ := tyOk_str hp
    rfl
  case double =>
    obtain ⟨p, rfl, -⟩ := matchesSig_one h
    exact doubleFn_no_panic p
  case int =>
    obtain ⟨p, rfl, -⟩ := matchesSig_one h
    exact intFn_no_panic p
  case uint =>
    obtain ⟨p, rfl, -⟩ := matchesSig_one h
    exact uintFn_no_panic p
  case «matches» =>
    obtain ⟨p, q, rfl, hp, hq⟩ := matchesSig_two h
    obtain ⟨s, rfl⟩ := tyOk_str hp
    obtain ⟨t, rfl⟩ := tyOk_str hq
    simp only [applyBuiltin]
    split <;> rfl
  case duration =>
    obtain ⟨p, rfl, hp⟩ := matchesSig_one h
    obtain ⟨s, rfl⟩ := tyOk_str hp
    simp only [applyBuiltin]
    split <;> rfl
  case timestamp =>
    obtain ⟨p, rfl, hp⟩ := matchesSig_one h
    obtain ⟨s, rfl⟩ := tyOk_str hp
    simp only [applyBuiltin]
    split <;> rfl
  case timeAccessor a =>
    obtain ⟨p, rfl, hp⟩ := matchesSig_one h
    obtain ⟨t, o, rfl⟩ := tyOk_ts hp
    rfl

/-! ## Argument extraction and function application -/

theorem lift_sat {o : Outcome α} {Q : α → Prop} (hq : ∀ a, o = .ok a → Q a)
    (hp : o.isPanic = false) : Sat (M.lift o : M β α) Q Any := by
  apply Sat.lift
  cases o with
  | ok a => exact hq a rfl
  | err _ => trivial
  | panic _ => simp [Outcome.isPanic] at hp

theorem fromValue_sat (t : ExtTy) (v : Value) :
    Sat (M.lift (fromValue t v) : EvalM Value) (fun w => tyOk t w = true) Any :=
  lift_sat (fun w h => fromValue_sound t v w h) (fromValue_no_panic t v)

theorem fromValueOpt_sat (t : ExtTy) (v : Value) :
    Sat (M.lift (fromValueOpt t v) : EvalM Value) (fun w => w = .null ∨ tyOk t w = true) Any :=
  lift_sat (fun w h => fromValueOpt_sound t v w h) (fromValueOpt_no_panic t v)

theorem runAll_sat (thunks : List (EvalM Value)) (hth : ∀ t ∈ thunks, Sat t Any Any) :
    Sat (runAll thunks) Any Any := by
  induction thunks with
  | nil => exact Sat.pure trivial
  | cons t ts ih =>
    unfold runAll
    apply Sat.bind (hth t (List.mem_cons_self ..)); intro v _
    apply Sat.bind (ih (fun t' h => hth t' (List.mem_cons_of_mem _ h))); intro vs _
    exact Sat.pure trivial

/-- `extract` never panics when the argument computations do not, and the parameters it returns
have the shape of the signature -/
theorem extract_sat (this : Option Value) (thunks : List (EvalM Value)) (argEs : List Expr)
    (hth : ∀ t ∈ thunks, Sat t Any Any) (sig : List Extractor) (idx : Nat) :
    Sat (extract this thunks argEs sig idx) (fun ps => MatchesSig sig ps) Any := by
  induction sig generalizing idx with
  | nil => unfold extract; exact Sat.pure trivial
  | cons ex rest ih =>
    unfold extract
    apply Sat.bind (Q := fun p => ExtOk ex p.1)
    · cases ex with
      | this t =>
        dsimp only
        split
        · apply Sat.bind (fromValue_sat t _); intro v hv
          exact Sat.pure hv
        · split
          · exact Sat.throw trivial
          · rename_i th hth'
            apply Sat.bind (hth th (List.mem_of_getElem? hth')); intro a _
            apply Sat.bind (fromValue_sat t a); intro v hv
            exact Sat.pure hv
      | thisOpt t =>
        dsimp only
        split
        · apply Sat.bind (fromValueOpt_sat t _); intro v hv
          exact Sat.pure hv
        · split
          · exact Sat.throw trivial
          · rename_i th hth'
            apply Sat.bind (hth th (List.mem_of_getElem? hth')); intro a _
            apply Sat.bind (fromValueOpt_sat t a); intro v hv
            exact Sat.pure hv
      | pos t =>
        dsimp only
        split
        · exact Sat.throw trivial
        · rename_i th hth'
          apply Sat.bind (hth th (List.mem_of_getElem? hth')); intro a _
          apply Sat.bind (fromValue_sat t a); intro v hv
          exact Sat.pure hv
      | posOpt t =>
        dsimp only
        split
        · exact Sat.throw trivial
        · rename_i th hth'
          apply Sat.bind (hth th (List.mem_of_getElem? hth')); intro a _
          apply Sat.bind (fromValueOpt_sat t a); intro v hv
          exact Sat.pure hv
      | allArgs =>
        dsimp only
        apply Sat.bind (runAll_sat thunks hth); intro vs _
        exact Sat.pure ⟨vs, rfl⟩
      | ident =>
        dsimp only
        split
        · exact Sat.throw trivial
        · exact Sat.pure ⟨_, rfl⟩
        · exact Sat.throw trivial
      | expr =>
        dsimp only
        split
        · exact Sat.throw trivial
        · exact Sat.pure ⟨_, rfl⟩
    · rintro ⟨v, idx'⟩ hv
      dsimp only
      apply Sat.bind (ih idx'); intro vs hvs
      exact Sat.pure ⟨hv, hvs⟩

/-- invoking any registered function (built-in or host, any signature, any body) never panics
when the argument computations do not -/
theorem applyFn_sat (ctx : Ctx) (name : String) (k : FnKind) (this : Option Value)
    (thunks : List (EvalM Value)) (argEs : List Expr) (hth : ∀ t ∈ thunks, Sat t Any Any) :
    Sat (applyFn ctx name k this thunks argEs) Any Any := by
  cases k with
  | builtin b =>
    unfold applyFn
    dsimp only
    apply Sat.bind (extract_sat this thunks argEs hth b.sig 0); intro ps hps
    exact Sat.lift_noPanic (applyBuiltin_no_panic ctx b ps hps)
  | host sig body =>
    unfold applyFn
    dsimp only
    apply Sat.bind (extract_sat this thunks argEs hth sig 0); intro ps _
    apply Sat.bind (Q := Any) (Sat.logCall trivial); intro _ _
    cases body with
    | echo => exact Sat.pure trivial
    | fail => exact Sat.throw trivial
    | const v => exact Sat.pure trivial
    | first => exact Sat.pure trivial

/-! ## Call nodes -/

/-- the function-call fallback of a call node -/
theorem fnCall_sat (ctx : Ctx) (f : String) (target : Option (EvalM Value)) (argEs : List Expr)
    (thunks : List (EvalM Value)) (hth : ∀ t ∈ thunks, Sat t Any Any) :
    (∀ t, target = some t → Sat t Any Any) →
    Sat (match ctx.getFunction f with
      | none => M.throw (.undeclared f)
      | some k =>
        match target with
        | none => applyFn ctx f k none thunks argEs
        | some t => do
          let tv ← t
          applyFn ctx f k (some tv) thunks argEs : EvalM Value) Any Any := by
  intro htg
  split
  · exact Sat.throw trivial
  · split
    · exact applyFn_sat _ _ _ _ _ _ hth
    · rename_i t
      apply Sat.bind (htg t rfl); intro tv _
      exact applyFn_sat _ _ _ _ _ _ hth

/-- a call node never panics when its operand computations do not -/
theorem callNode_sat (ctx : Ctx) (f : String) (target : Option (EvalM Value)) (argEs : List Expr)
    (thunks : List (EvalM Value)) (hth : ∀ t ∈ thunks, Sat t Any Any)
    (htg : ∀ t, target = some t → Sat t Any Any) :
    Sat (callNode ctx f target argEs thunks) Any Any := by
  have hfn := fnCall_sat ctx f target argEs thunks hth htg
  unfold callNode
  dsimp only
  split
  · rename_i c a b
    have hc := hth c (by simp)
    have ha := hth a (by simp)
    have hb := hth b (by simp)
    split
    · apply Sat.bind hc; intro cv _
      split
      · exact ha
      · exact hb
    · exact hfn
  · rename_i a b
    have ha := hth a (by simp)
    have hb := hth b (by simp)
    split
    · apply Sat.bind ha; intro l _
      split
      · exact Sat.pure trivial
      · exact hb
    · apply Sat.bind ha; intro l _
      split
      · exact Sat.pure trivial
      · apply Sat.bind hb; intro r _
        exact Sat.pure trivial
    · rename_i op _ _ _
      apply Sat.bind ha; intro l _
      apply Sat.bind hb; intro r _
      exact Sat.lift_noPanic (applyBin_no_panic op l r)
    · exact hfn
  · rename_i a
    have ha := hth a (by simp)
    split
    · rename_i op _
      apply Sat.bind ha; intro v _
      exact Sat.lift_noPanic (applyUn_no_panic op v)
    · exact hfn
  · exact hfn

/-! ## The comprehension loop -/

theorem loopG_sat (iv av : String) (evCond evStep : Scope → EvalM Value)
    (hc : ∀ sc, Sat (evCond sc) Any Any) (hs : ∀ sc, Sat (evStep sc) Any Any)
    (items : List Value) (sc : Scope) : Sat (loopG iv av evCond evStep items sc) Any Any := by
  induction items generalizing sc with
  | nil => unfold loopG; exact Sat.pure trivial
  | cons item rest ih =>
    unfold loopG
    apply Sat.bind (hc sc); intro c _
    split
    · exact Sat.pure trivial
    · dsimp only
      apply Sat.bind (hs _); intro acc _
      exact ih _

/-! ## The evaluator -/

theorem band_true {a b : Bool} (h : (a && b) = true) : a = true ∧ b = true := by
  simpa using h

/-- every compiled tree evaluates, in every context, to a value or an execution error -/
theorem eval_sat : ∀ e, Compiled e = true → ∀ ctx, Sat (eval ctx e) Any Any := by
  apply Expr.rec
    (motive_1 := fun e => Compiled e = true → ∀ ctx, Sat (eval ctx e) Any Any)
    (motive_2 := fun es => CompiledList es = true → ∀ ctx,
      Sat (evalList ctx es) Any Any ∧ ∀ t ∈ evalThunks ctx es, Sat t Any Any)
    (motive_3 := fun es => CompiledEntries es = true → ∀ ctx acc,
      Sat (evalEntries ctx es acc) Any Any)
    (motive_4 := fun p => Compiled p.1 = true → Compiled p.2 = true → ∀ ctx,
      Sat (eval ctx p.1) Any Any ∧ Sat (eval ctx p.2) Any Any)
  · -- lit
    intro v _ ctx
    rw [eval]
    exact Sat.tick_bind (Sat.pure trivial)
  · -- ident
    intro n _ ctx
    rw [eval]
    apply Sat.tick_bind
    split
    · exact Sat.pure trivial
    · exact Sat.throw trivial
  · -- call
    intro f args ih h ctx
    rw [Compiled] at h
    rw [eval]
    apply Sat.tick_bind
    exact callNode_sat ctx f none args _ (ih h ctx).2 (fun _ h => nomatch h)
  · -- mcall
    intro f t args iht ih h ctx
    rw [Compiled] at h
    obtain ⟨h1, h2⟩ := band_true h
    rw [eval]
    apply Sat.tick_bind
    refine callNode_sat ctx f _ args _ (ih h2 ctx).2 ?_
    intro t' ht'
    cases ht'
    exact iht h1 ctx
  · -- select
    intro e field test ih h ctx
    rw [Compiled] at h
    rw [eval]
    apply Sat.tick_bind
    apply Sat.bind (ih h ctx); intro v _
    split
    · exact Sat.pure trivial
    · apply Sat.lift_noPanic
      unfold member
      dsimp only
      split
      · rfl
      · split <;> rfl
  · -- list
    intro es ih h ctx
    rw [Compiled] at h
    rw [eval]
    apply Sat.tick_bind
    apply Sat.bind (ih h ctx).1; intro vs _
    exact Sat.pure trivial
  · -- map
    intro es ih h ctx
    rw [Compiled] at h
    rw [eval]
    apply Sat.tick_bind
    apply Sat.bind (ih h ctx []); intro m _
    exact Sat.pure trivial
  · -- struct
    intro name fields vals _ _ ctx
    rw [eval]
    apply Sat.tick_bind
    exact Sat.throw trivial
  · -- comp
    intro iv range av init cond step result ihr ihi ihc ihs ihres h ctx
    rw [Compiled] at h
    obtain ⟨h, hres⟩ := band_true h
    obtain ⟨h, hs⟩ := band_true h
    obtain ⟨h, hc⟩ := band_true h
    obtain ⟨hr, hi⟩ := band_true h
    rw [eval]
    apply Sat.tick_bind
    apply Sat.bind (ihi hi ctx); intro vinit _
    apply Sat.bind (ihr hr ctx); intro r _
    apply Sat.bind (Q := Any)
    · split
      · exact Sat.pure trivial
      · exact Sat.pure trivial
      · exact Sat.throw trivial
    · intro items _
      apply Sat.bind (loopG_sat iv av _ _ (fun sc => ihc hc _) (fun sc => ihs hs _) items _)
      intro sc _
      exact ihres hres _
  · -- unspecified
    intro h
    rw [Compiled] at h
    cases h
  · -- []
    intro _ ctx
    refine ⟨?_, ?_⟩
    · rw [evalList]; exact Sat.pure trivial
    · rw [evalThunks]; intro t ht; cases ht
  · -- e :: es
    intro e es ihe ihes h ctx
    rw [CompiledList] at h
    obtain ⟨h1, h2⟩ := band_true h
    refine ⟨?_, ?_⟩
    · rw [evalList]
      apply Sat.bind (ihe h1 ctx); intro v _
      apply Sat.bind (ihes h2 ctx).1; intro vs _
      exact Sat.pure trivial
    · rw [evalThunks]
      intro t ht
      rcases List.mem_cons.mp ht with rfl | ht
      · exact ihe h1 ctx
      · exact (ihes h2 ctx).2 t ht
  · -- entries []
    intro _ ctx acc
    rw [evalEntries]
    exact Sat.pure trivial
  · -- entry :: entries
    rintro ⟨k, v⟩ rest ihkv ihrest h ctx acc
    rw [CompiledEntries] at h
    obtain ⟨h, hrest⟩ := band_true h
    obtain ⟨hk, hv⟩ := band_true h
    obtain ⟨sk, sv⟩ := ihkv hk hv ctx
    rw [evalEntries]
    apply Sat.bind sk; intro kv _
    split
    · exact Sat.throw trivial
    · apply Sat.bind sv; intro vv _
      exact ihrest hrest ctx _
  · -- pair
    intro k v ihk ihv hk hv ctx
    exact ⟨ihk hk ctx, ihv hv ctx⟩

/-- MAIN THEOREM: evaluating a compiled program in ANY context (any variables, any registered
functions including host functions of any signature, any regex table), from ANY state, never
panics: it yields a value or an execution error. -/
theorem eval_no_panic (e : Expr) (h : Compiled e = true) (ctx : Ctx) (st : St Value) :
    ((eval ctx e st).1).isPanic = false :=
  (eval_sat e h ctx).isPanic_eq_false st

/-- corollary for `execute` -/
theorem execute_no_panic (e : Expr) (h : Compiled e = true) (ctx : Ctx) :
    ((execute ctx e).1).isPanic = false :=
  eval_no_panic e h ctx {}

/-- the converse witness: the only panic site of `eval` is the unspecified node -/
theorem unspecified_panics (ctx : Ctx) (st : St Value) :
    ((eval ctx .unspecified st).1).isPanic = true := by
  rw [eval]; rfl

/-! ### non-vacuity

A comprehension over a list literal whose loop step calls a two-parameter host function through
a receiver: the tree is compiled, it runs to a value with two logged host calls, and the same
tree in a context that lacks the function is an execution error — not a panic. -/

/-- `[1, 2].fold(x, acc = 0, true, acc + x.h("k"), acc)` in macro-expanded form -/
def demo : Expr :=
  .comp "x" (.list [.lit (.int 1), .lit (.int 2)]) "acc" (.lit (.int 0)) (.lit (.bool true))
    (.call "_+_" [.ident "acc", .mcall "h" (.ident "x") [.lit (.str "k".toList)]]) (.ident "acc")

def demoCtx : Ctx := { fns := [("h", .host [.this .int, .pos .str] (.const (.int 10)))] }

example : Compiled demo = true := by decide
example : (execute demoCtx demo).1 = .ok (.int 20) ∧ (execute demoCtx demo).2.log.length = 2 := by
  constructor <;> rfl
example : ((execute demoCtx demo).1).isPanic = false := execute_no_panic demo (by decide) demoCtx
example : (execute {} demo).1 = .err (.undeclared "h") := by rfl
example : ((execute {} demo).1).isPanic = false := execute_no_panic demo (by decide) {}

/-- the shape hypothesis of `applyBuiltin_no_panic` is needed: a built-in applied to a parameter
list that `extract` could not have produced does hit the arity panic -/
example : (applyBuiltin {} .size []).isPanic = true := by rfl
example : MatchesSig Builtin.startsWith.sig [.str "ab".toList, .str "a".toList] := by
  simp [Builtin.sig, MatchesSig, ExtOk, tyOk]

/-- an `unspecified` node that is never reached does no harm, one that is reached panics -/
example : Compiled (.call "_||_" [.lit (.bool true), .unspecified]) = false := by decide
example : ((execute {} (.list [.unspecified])).1).isPanic = true := by rfl

end Cel.Props.C02
