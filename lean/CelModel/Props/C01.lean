import CelModel.Parser
import CelModel.Lemmas.ParserInv
/-!
# C01 — a text that is not one complete CEL expression is never accepted

About the acceptance behaviour of the parser model `Parser.compile` (lexer + grammar + visitor
checks; tied to the real ANTLR-based parser by the correspondence check, which also observes
what no model can: panics, hangs and the error positions of the ANTLR runtime).
The structural theorems rest on the token-level invariant of `Lemmas/ParserInv.lean`.
-/
namespace Cel.Props.C01
open Cel Cel.Lexer Cel.Parser

/-- compilation is a total function: it returns a program or rejects (the recursion is on
explicit fuel bounded by the token count, so it cannot diverge) -/
theorem compile_total (src : Str) : (∃ e, compile src = some e) ∨ compile src = none := by
  cases h : compile src with
  | none => exact Or.inr rfl
  | some e => exact Or.inl ⟨e, rfl⟩

/-- an unknown character or an unterminated / malformed literal (anything the lexer cannot
tokenise) is never accepted -/
theorem accept_no_lex_error (src : Str) (e : Expr) (h : compile src = some e) :
    (Lexer.lex src).2 = 0 := by
  unfold compile at h
  split at h
  · cases h
  · split at h
    · rename_i ts hl
      rw [hl]
    · cases h

/-- an accepted text is consumed entirely: no trailing token after the expression -/
theorem accept_consumes_all (ts : Toks) (e : Expr) (h : parseTop ts = some e) :
    ∃ fuel, parseExpr fuel ts = some (e, []) := by
  unfold parseTop at h
  split at h
  · rename_i e' h1
    cases h
    exact ⟨_, h1⟩
  · cases h

/-- the empty token sequence (empty text, only blanks, only comments) is never accepted -/
theorem empty_rejected : parseTop [] = none := by
  decide

/-! ## brackets -/

def opener : Tok → Option String
  | .sym "(" => some ")" | .sym "[" => some "]" | .sym "{" => some "}" | _ => none
def closer : Tok → Option String
  | .sym ")" => some ")" | .sym "]" => some "]" | .sym "}" => some "}" | _ => none

/-- stack-based bracket check: `stack` holds the closers still expected, innermost first -/
def wellBracketed : List String → Toks → Bool
  | stack, [] => stack.isEmpty
  | stack, t :: ts =>
    match opener t with
    | some c => wellBracketed (c :: stack) ts
    | none =>
      match closer t with
      | some c => (match stack with
        | c' :: rest => c == c' && wellBracketed rest ts
        | [] => false)
      | none => wellBracketed stack ts

theorem opener_eq : opener = ParserInv.opener := rfl
theorem closer_eq : closer = ParserInv.closer := rfl

/-- the checker above is the one the invariant of `Lemmas/ParserInv.lean` is stated with -/
theorem wellBracketed_eq (stack : List String) (ts : Toks) :
    wellBracketed stack ts = ParserInv.wellBracketed stack ts := by
  induction ts generalizing stack with
  | nil => rfl
  | cons t ts ih =>
    simp only [wellBracketed, ParserInv.wellBracketed, opener_eq, closer_eq, ih]
    rfl

/-- every accepted token sequence has balanced, properly nested brackets: an unbalanced bracket
is never accepted -/
theorem accept_brackets_balanced (ts : Toks) (e : Expr) (h : parseTop ts = some e) :
    wellBracketed [] ts = true := by
  rw [wellBracketed_eq]
  exact ParserInv.good_nil_balanced (ParserInv.parseTop_good h)

/-! ## no dangling operator -/

/-- tokens an expression can end with: a closing bracket, an identifier, a literal or one of
the keyword literals — never an operator, a comma, a dot, `?` or `:` -/
def canEnd : Tok → Bool
  | .sym s => s == ")" || s == "]" || s == "}" || s == "true" || s == "false" || s == "null"
  | _ => true

/-- tokens an expression can start with -/
def canStart : Tok → Bool
  | .sym s => s == "(" || s == "[" || s == "{" || s == "." || s == "-" || s == "!" || s == "true"
      || s == "false" || s == "null"
  | .escIdent _ => false
  | _ => true

theorem canEnd_eq : canEnd = ParserInv.canEnd := rfl
theorem canStart_eq : canStart = ParserInv.canStart := rfl

/-- an accepted text ends with an operand, never with a dangling operator -/
theorem accept_no_dangling_operator (ts : Toks) (e : Expr) (h : parseTop ts = some e) :
    ∃ last, ts.getLast? = some last ∧ canEnd last = true := by
  rw [canEnd_eq]
  exact ParserInv.good_nil_last (ParserInv.parseTop_good h)

/-- … and begins with something an expression can begin with -/
theorem accept_starts_with_operand (ts : Toks) (e : Expr) (h : parseTop ts = some e) :
    ∃ first, ts.head? = some first ∧ canStart first = true := by
  rw [canStart_eq]
  exact (ParserInv.parseTop_good h).2

/-! ### non-vacuity: texts the theorems reject -/
set_option maxRecDepth 16384 in
example : compile "1 +".toList = none ∧ compile "(1".toList = none ∧ compile "1)".toList = none
    ∧ compile "1 2".toList = none ∧ compile "'abc".toList = none ∧ compile "a # b".toList = none
    ∧ compile "".toList = none := by
  refine ⟨?_, ?_, ?_, ?_, ?_, ?_, ?_⟩ <;> decide
set_option maxRecDepth 16384 in
example : ∃ e, compile "(a + [1, 2][0]) * f(x)".toList = some e := by
  -- through the token list (kernel evaluation of the lexer, then of the parser)
  have hb : Lexer.bestMatch "(a + [1, 2][0]) * f(x)".toList = some (.fixed, 1, "(") := by decide
  have hl : Lexer.lex "(a + [1, 2][0]) * f(x)".toList =
      ([.sym "(", .ident ['a'], .sym "+", .sym "[", .int ['1'], .sym ",", .int ['2'], .sym "]",
        .sym "[", .int ['0'], .sym "]", .sym ")", .sym "*", .ident ['f'], .sym "(", .ident ['x'],
        .sym ")"], 0) := by decide
  have hp : (parseTop [.sym "(", .ident ['a'], .sym "+", .sym "[", .int ['1'], .sym ",",
      .int ['2'], .sym "]", .sym "[", .int ['0'], .sym "]", .sym ")", .sym "*", .ident ['f'],
      .sym "(", .ident ['x'], .sym ")"]).isSome = true := by decide
  obtain ⟨e, he⟩ := Option.isSome_iff_exists.mp hp
  refine ⟨e, ?_⟩
  unfold compile
  rw [hb]
  simp only
  rw [hl]
  exact he

end Cel.Props.C01
