import CelModel.Props.C16
/-!
# C16 (second part) — accessors see the local time only; the week and the order of instants

* the calendar fields of a timestamp are a function of its *local* time `instant + offset`:
  two timestamps showing the same wall clock have the same fields, whatever their offsets;
  moving the offset by `k` seconds is the same as moving the instant by `k` seconds;
* one day later every field of the time of day is unchanged and the weekday advances by one,
  cyclically; seven days later the weekday is the same;
* adding one duration to two timestamps keeps their order, and the order of a timestamp and its
  sum with a duration is the sign of the duration.
-/
namespace Cel.Props.C16
open Cel Cel.Time

/-- the fields depend on instant and offset only through the local time -/
theorem fields_local_time_only (u1 o1 u2 o2 : Int)
    (h : u1 + o1 * nsPerSec = u2 + o2 * nsPerSec) : fields u1 o1 = fields u2 o2 := by
  simp only [fields, h]

/-- every accessor returns the same number for timestamps with the same local time -/
theorem access_local_time_only (a : Accessor) (u1 o1 u2 o2 : Int)
    (h : u1 + o1 * nsPerSec = u2 + o2 * nsPerSec) : access a u1 o1 = access a u2 o2 := by
  simp only [access, fields_local_time_only u1 o1 u2 o2 h]

/-- shifting the offset by `k` seconds shows the fields of the instant `k` seconds later -/
theorem access_offset_shift (a : Accessor) (u o k : Int) :
    access a u (o + k) = access a (u + k * nsPerSec) o := by
  apply access_local_time_only
  simp only [nsPerSec]; omega

/-- the accessors at offset `o` are the UTC accessors of the local time -/
theorem access_is_utc_of_local (a : Accessor) (u o : Int) :
    access a u o = access a (u + o * nsPerSec) 0 := by
  apply access_local_time_only
  simp

/-- one day later: same time of day, next day number, weekday advanced by one (cyclically) -/
theorem next_day (u o : Int) :
    (fields (u + nsPerDay) o).days = (fields u o).days + 1 ∧
    (fields (u + nsPerDay) o).hour = (fields u o).hour ∧
    (fields (u + nsPerDay) o).minute = (fields u o).minute ∧
    (fields (u + nsPerDay) o).second = (fields u o).second ∧
    (fields (u + nsPerDay) o).nanos = (fields u o).nanos ∧
    access .dayOfWeek (u + nsPerDay) o = (access .dayOfWeek u o + 1) % 7 := by
  have hd : (u + nsPerDay + o * nsPerSec) / nsPerDay = (u + o * nsPerSec) / nsPerDay + 1 := by
    simp only [nsPerDay, nsPerSec]; omega
  have hm : (u + nsPerDay + o * nsPerSec) % nsPerDay = (u + o * nsPerSec) % nsPerDay := by
    simp only [nsPerDay, nsPerSec]; omega
  refine ⟨?_, ?_, ?_, ?_, ?_, ?_⟩
  · simp only [fields, hd]
  · simp only [fields, hm]
  · simp only [fields, hm]
  · simp only [fields, hm]
  · simp only [fields, hm]
  · simp only [access, fields, hd]; omega

/-- a week later the weekday is the same -/
theorem weekday_period_seven (u o : Int) :
    access .dayOfWeek (u + 7 * nsPerDay) o = access .dayOfWeek u o := by
  have hd : (u + 7 * nsPerDay + o * nsPerSec) / nsPerDay = (u + o * nsPerSec) / nsPerDay + 7 := by
    simp only [nsPerDay, nsPerSec]; omega
  simp only [access, fields, hd]; omega

/-- the time-of-day accessors are within their clock ranges, for every timestamp -/
theorem clock_accessors_in_range (u o : Int) :
    0 ≤ access .hours u o ∧ access .hours u o ≤ 23 ∧
    0 ≤ access .minutes u o ∧ access .minutes u o ≤ 59 ∧
    0 ≤ access .seconds u o ∧ access .seconds u o ≤ 59 ∧
    0 ≤ access .milliseconds u o ∧ access .milliseconds u o ≤ 999 := by
  obtain ⟨_, h1, h2, h3, h4⟩ := accessors_recompose u o
  simp only [access]
  omega

/-- the calendar accessors are within their documented ranges (month 0-11, day of month 0-30,
date 1-31), for every timestamp -/
theorem calendar_accessors_in_range (u o : Int) :
    0 ≤ access .month u o ∧ access .month u o ≤ 11 ∧
    0 ≤ access .dayOfMonth u o ∧ access .dayOfMonth u o ≤ 30 ∧
    1 ≤ access .date u o ∧ access .date u o ≤ 31 ∧
    access .date u o = access .dayOfMonth u o + 1 := by
  obtain ⟨y, m, d, hc, _, hm1, hm12, hd1, hdm⟩ :=
    civilFromDays_spec ((u + o * nsPerSec) / nsPerDay)
  have hdim : daysInMonth y m ≤ 31 := by
    unfold daysInMonth; split <;> (try split) <;> omega
  simp only [access, fields, hc]
  omega

/-- adding the same duration to two timestamps keeps their order (offsets play no part) -/
theorem add_duration_monotone (t1 t2 o1 o2 d : Int)
    (h1 : inRange (t1 + d) = true) (h2 : inRange (t2 + d) = true)
    (ht1 : inRange t1 = true) (ht2 : inRange t2 = true) :
    ∃ r1 r2, arith .add (.ts t1 o1) (.dur d) = .ok r1 ∧ arith .add (.ts t2 o2) (.dur d) = .ok r2 ∧
      Value.partialCmp r1 r2 = Value.partialCmp (.ts t1 o1) (.ts t2 o2) := by
  have a1 := ((add_sub_duration_inverse t1 o1 d ht1).1 h1).1
  have a2 := ((add_sub_duration_inverse t2 o2 d ht2).1 h2).1
  refine ⟨_, _, a1, a2, ?_⟩
  rw [(cmp_by_instant_ignores_offset _ _ _ _).1, (cmp_by_instant_ignores_offset _ _ _ _).1]
  congr 1
  simp only [compare, compareOfLessAndEq]
  have e1 : (t1 + d < t2 + d) = (t1 < t2) := by apply propext; omega
  have e2 : (t1 + d = t2 + d) = (t1 = t2) := by apply propext; omega
  simp only [e1, e2]

/-- a timestamp compared with itself plus a duration: the order is the sign of the duration -/
theorem add_duration_order_is_sign (t o d : Int) (ht : inRange t = true) (h : inRange (t + d) = true) :
    ∃ r, arith .add (.ts t o) (.dur d) = .ok r ∧ Value.partialCmp (.ts t o) r = some (compare 0 d) := by
  have a1 := ((add_sub_duration_inverse t o d ht).1 h).1
  refine ⟨_, a1, ?_⟩
  rw [(cmp_by_instant_ignores_offset _ _ _ _).1]
  congr 1
  simp only [compare, compareOfLessAndEq]
  have e1 : (t < t + d) = (0 < d) := by apply propext; omega
  have e2 : (t = t + d) = (0 = d) := by apply propext; omega
  simp only [e1, e2]

-- non-vacuity: 1970-01-01T00:00:00Z and 1970-01-01T01:00:00+01:00 show different wall clocks,
-- 1970-01-01T00:00:00Z and 1969-12-31T23:00:00Z seen at +01:00 show the same
example : access .hours 0 0 = 0 ∧ access .hours 0 3600 = 1 ∧ access .hours (-3600 * nsPerSec) 3600 = 0 := by
  decide

end Cel.Props.C16
