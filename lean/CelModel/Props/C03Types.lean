import CelModel.Props.C03
import CelModel.Lemmas.Sat
import CelModel.Lemmas.Typing
/-!
# C03 (continued) — type soundness of the core fragment

A simple type system for the core fragment of the property (int, uint, double, bool, string,
bytes, null, list, map; arithmetic, comparison, logic, conditional, indexing, membership, field
selection, `has`, the standard functions and the comprehension nodes the macros expand to), and
the theorem that a well-typed program, run against a context that supplies its free variables at
their declared types and the standard functions under their standard names,

* never panics,
* yields a value of the program's type, or
* fails only with an error that depends on the *values* met (overflow, division / remainder by
  zero, missing key, a conversion or regex function rejecting its argument, an unordered pair of
  doubles) — never with one of the errors that signal an ill-formed program (unsupported
  operator, bad index / key / argument type / argument count, missing receiver, non-iterable
  macro range, undeclared reference).

`opt τ` is the type of `τ`-or-null (what indexing yields: null for an absent index).
-/
namespace Cel.Props.C03
open Cel

inductive Ty where
  | int | uint | dbl | bool | str | bytes | null
  | list (t : Ty)
  | map (k : Ty) (v : Ty)
  | opt (t : Ty)
deriving Repr, DecidableEq, Inhabited

/-- types a map key may have -/
def Ty.isKey : Ty → Bool
  | .int | .uint | .bool | .str => true
  | _ => false

def Ty.isNumeric : Ty → Bool
  | .int | .uint | .dbl => true
  | _ => false

/-- `v` is a value of type `τ` -/
def HasTy : Value → Ty → Prop
  | v, .int => ∃ i, v = .int i
  | v, .uint => ∃ n, v = .uint n
  | v, .dbl => ∃ f, v = .dbl f
  | v, .bool => ∃ b, v = .bool b
  | v, .str => ∃ s, v = .str s
  | v, .bytes => ∃ b, v = .bytes b
  | v, .null => v = .null
  | v, .list t => ∃ xs, v = .list xs ∧ ∀ x ∈ xs, HasTy x t
  | v, .map k t => ∃ m, v = .map m ∧ ∀ kv ∈ m, HasTy kv.1.toValue k ∧ HasTy kv.2 t
  | v, .opt t => v = .null ∨ HasTy v t

abbrev TEnv := List (String × Ty)

def arithToBin : ArithOp → BinOp
  | .add => .add | .sub => .sub | .mul => .mul | .div => .div | .rem => .rem

/-- operand and result types of the strict binary operators -/
inductive BinTy : BinOp → Ty → Ty → Ty → Prop where
  | intArith (op : ArithOp) : BinTy (arithToBin op) .int .int .int
  | uintArith (op : ArithOp) : BinTy (arithToBin op) .uint .uint .uint
  | dblAdd : BinTy .add .dbl .dbl .dbl
  | dblSub : BinTy .sub .dbl .dbl .dbl
  | dblMul : BinTy .mul .dbl .dbl .dbl
  | dblDiv : BinTy .div .dbl .dbl .dbl
  | strCat : BinTy .add .str .str .str
  | listCat (t : Ty) : BinTy .add (.list t) (.list t) (.list t)
  | eq (a b : Ty) : BinTy .eq a b .bool
  | ne (a b : Ty) : BinTy .ne a b .bool
  | ordNum (op : BinOp) (a b : Ty) (hop : op = .lt ∨ op = .le ∨ op = .gt ∨ op = .ge)
      (ha : a.isNumeric = true) (hb : b.isNumeric = true) : BinTy op a b .bool
  | ordStr (op : BinOp) (hop : op = .lt ∨ op = .le ∨ op = .gt ∨ op = .ge) : BinTy op .str .str .bool
  | ordBool (op : BinOp) (hop : op = .lt ∨ op = .le ∨ op = .gt ∨ op = .ge) : BinTy op .bool .bool .bool
  | inList (a t : Ty) : BinTy .in_ a (.list t) .bool
  | inMap (a k t : Ty) : BinTy .in_ a (.map k t) .bool
  | inStr : BinTy .in_ .str .str .bool
  | idxList (t : Ty) : BinTy .index (.list t) .int (.opt t)
  | idxStr : BinTy .index .str .int (.opt .str)
  | idxMap (k t a : Ty) (ha : a.isKey = true) : BinTy .index (.map k t) a (.opt t)

inductive UnTy : UnOp → Ty → Ty → Prop where
  | not : UnTy .not .bool .bool
  | negInt : UnTy .neg .int .int
  | negDbl : UnTy .neg .dbl .dbl
  | nsf (a : Ty) : UnTy .notStrictlyFalse a .bool

/-- argument and result types of the standard functions, by name; `recv` tells whether the first
type is that of the receiver (`x.f(…)`) or of the first argument (`f(x, …)`) -/
inductive FnTy : String → (recv : Bool) → List Ty → Ty → Prop where
  | size (recv : Bool) (a : Ty) (h : a = .str ∨ a = .bytes ∨ (∃ t, a = .list t) ∨ (∃ k t, a = .map k t)) :
      FnTy "size" recv [a] .int
  | containsList (t a : Ty) : FnTy "contains" true [.list t, a] .bool
  | containsMap (k t a : Ty) (ha : a.isKey = true) : FnTy "contains" true [.map k t, a] .bool
  | containsStr : FnTy "contains" true [.str, .str] .bool
  | containsBytes : FnTy "contains" true [.bytes, .bytes] .bool
  | startsWith : FnTy "startsWith" true [.str, .str] .bool
  | endsWith : FnTy "endsWith" true [.str, .str] .bool
  | matches (recv : Bool) : FnTy "matches" recv [.str, .str] .bool
  | string (recv : Bool) (a : Ty) (h : a = .int ∨ a = .uint ∨ a = .dbl ∨ a = .str ∨ a = .bytes) :
      FnTy "string" recv [a] .str
  | bytes : FnTy "bytes" false [.str] .bytes
  | int (recv : Bool) (a : Ty) (h : a = .int ∨ a = .uint ∨ a = .dbl ∨ a = .str) : FnTy "int" recv [a] .int
  | uint (recv : Bool) (a : Ty) (h : a = .int ∨ a = .uint ∨ a = .dbl ∨ a = .str) : FnTy "uint" recv [a] .uint
  | double (recv : Bool) (a : Ty) (h : a = .int ∨ a = .uint ∨ a = .dbl ∨ a = .str) : FnTy "double" recv [a] .dbl

def TEnv.lookup : TEnv → String → Option Ty
  | [], _ => none
  | (k, t) :: rest, n => if k == n then some t else TEnv.lookup rest n

/-- the typing judgement; `fns` is the set of registered function names (field selection on a
map falls back to a function value when the field names one, so `m.f` is typed only for `f`
outside it) -/
inductive HasType (fns : List String) : TEnv → Expr → Ty → Prop where
  | lit (Γ : TEnv) (v : Value) (τ : Ty) (h : HasTy v τ) : HasType fns Γ (.lit v) τ
  | ident (Γ : TEnv) (n : String) (τ : Ty) (h : TEnv.lookup Γ n = some τ) : HasType fns Γ (.ident n) τ
  /-- anything is also an optional; null is an optional of anything -/
  | sub (Γ : TEnv) (e : Expr) (τ : Ty) (h : HasType fns Γ e τ) : HasType fns Γ e (.opt τ)
  | nullOpt (Γ : TEnv) (e : Expr) (τ : Ty) (h : HasType fns Γ e .null) : HasType fns Γ e (.opt τ)
  | bin (Γ : TEnv) (f : String) (op : BinOp) (a b : Expr) (τa τb τ : Ty)
      (hf : binOpOfName f = some op) (hop : op ≠ .and ∧ op ≠ .or) (hty : BinTy op τa τb τ)
      (ha : HasType fns Γ a τa) (hb : HasType fns Γ b τb) : HasType fns Γ (.call f [a, b]) τ
  | and (Γ : TEnv) (f : String) (a b : Expr) (hf : binOpOfName f = some .and)
      (ha : HasType fns Γ a .bool) (hb : HasType fns Γ b .bool) : HasType fns Γ (.call f [a, b]) .bool
  | or (Γ : TEnv) (f : String) (a b : Expr) (hf : binOpOfName f = some .or)
      (ha : HasType fns Γ a .bool) (hb : HasType fns Γ b .bool) : HasType fns Γ (.call f [a, b]) .bool
  | un (Γ : TEnv) (f : String) (op : UnOp) (a : Expr) (τa τ : Ty)
      (hf : unOpOfName f = some op) (hty : UnTy op τa τ) (ha : HasType fns Γ a τa) :
      HasType fns Γ (.call f [a]) τ
  | cond (Γ : TEnv) (c a b : Expr) (τ : Ty) (hc : HasType fns Γ c .bool)
      (ha : HasType fns Γ a τ) (hb : HasType fns Γ b τ) : HasType fns Γ (.call condName [c, a, b]) τ
  | list (Γ : TEnv) (es : List Expr) (τ : Ty) (h : ∀ e ∈ es, HasType fns Γ e τ) :
      HasType fns Γ (.list es) (.list τ)
  | map (Γ : TEnv) (es : List (Expr × Expr)) (κ τ : Ty) (hk : κ.isKey = true)
      (hkeys : ∀ kv ∈ es, HasType fns Γ kv.1 κ) (hvals : ∀ kv ∈ es, HasType fns Γ kv.2 τ) :
      HasType fns Γ (.map es) (.map κ τ)
  | select (Γ : TEnv) (e : Expr) (f : Str) (τ : Ty) (hf : String.ofList f ∉ fns)
      (h : HasType fns Γ e (.map .str τ)) : HasType fns Γ (.select e f false) τ
  | has (Γ : TEnv) (e : Expr) (f : Str) (τ : Ty) (h : HasType fns Γ e τ) :
      HasType fns Γ (.select e f true) .bool
  /-- `f(a)` / `f(a, b)` for a standard function -/
  | fnGlobal (Γ : TEnv) (f : String) (args : List Expr) (τs : List Ty) (τ : Ty)
      (hty : FnTy f false τs τ) (hlen : args.length = τs.length)
      (h : ∀ i (hi : i < args.length), HasType fns Γ args[i] (τs[i]'(hlen ▸ hi))) :
      HasType fns Γ (.call f args) τ
  /-- `a.f()` / `a.f(b)` for a standard function -/
  | fnMember (Γ : TEnv) (f : String) (t : Expr) (args : List Expr) (τt : Ty) (τs : List Ty) (τ : Ty)
      (hty : FnTy f true (τt :: τs) τ) (hlen : args.length = τs.length)
      (ht : HasType fns Γ t τt)
      (h : ∀ i (hi : i < args.length), HasType fns Γ args[i] (τs[i]'(hlen ▸ hi))) :
      HasType fns Γ (.mcall f t args) τ
  /-- comprehension nodes (what `all`, `exists`, `exists_one`, `map`, `filter` expand to): the
  loop condition and the result are evaluated both before the iteration variable is bound and
  after, so they are typed in both environments -/
  | compList (Γ : TEnv) (iv av : String) (range init cond step result : Expr) (σ α ρ : Ty)
      (hne : iv ≠ av)
      (hrange : HasType fns Γ range (.list σ))
      (hinit : HasType fns Γ init α)
      (hcond0 : HasType fns ((av, α) :: Γ) cond .bool)
      (hcond1 : HasType fns ((av, α) :: (iv, σ) :: Γ) cond .bool)
      (hstep : HasType fns ((av, α) :: (iv, σ) :: Γ) step α)
      (hres0 : HasType fns ((av, α) :: Γ) result ρ)
      (hres1 : HasType fns ((av, α) :: (iv, σ) :: Γ) result ρ) :
      HasType fns Γ (.comp iv range av init cond step result) ρ
  /-- a macro over a map ranges over its keys -/
  | compMap (Γ : TEnv) (iv av : String) (range init cond step result : Expr) (σ τv α ρ : Ty)
      (hne : iv ≠ av)
      (hrange : HasType fns Γ range (.map σ τv))
      (hinit : HasType fns Γ init α)
      (hcond0 : HasType fns ((av, α) :: Γ) cond .bool)
      (hcond1 : HasType fns ((av, α) :: (iv, σ) :: Γ) cond .bool)
      (hstep : HasType fns ((av, α) :: (iv, σ) :: Γ) step α)
      (hres0 : HasType fns ((av, α) :: Γ) result ρ)
      (hres1 : HasType fns ((av, α) :: (iv, σ) :: Γ) result ρ) :
      HasType fns Γ (.comp iv range av init cond step result) ρ

/-- the context supplies every variable of `Γ` at its type -/
def CtxOk (Γ : TEnv) (ctx : Ctx) : Prop :=
  ∀ n τ, TEnv.lookup Γ n = some τ → ∃ v, ctx.getVariable n = some v ∧ HasTy v τ

/-- the standard functions are registered under their standard names -/
def StdFns (ctx : Ctx) : Prop :=
  ctx.getFunction "size" = some (.builtin .size) ∧
  ctx.getFunction "contains" = some (.builtin .contains) ∧
  ctx.getFunction "startsWith" = some (.builtin .startsWith) ∧
  ctx.getFunction "endsWith" = some (.builtin .endsWith) ∧
  ctx.getFunction "matches" = some (.builtin .matches) ∧
  ctx.getFunction "string" = some (.builtin .string) ∧
  ctx.getFunction "bytes" = some (.builtin .bytes) ∧
  ctx.getFunction "int" = some (.builtin .int) ∧
  ctx.getFunction "uint" = some (.builtin .uint) ∧
  ctx.getFunction "double" = some (.builtin .double)

/-- errors that depend on the values met, not on the shape of the program -/
def ValueErr : ErrC → Prop
  | .overflow | .div0 | .rem0 | .nosuchkey | .functionError | .notcomparable => True
  | .needRegex _ _ => True
  | _ => False

/-! ## Proof of type soundness

### operators on values -/
section proof
open Cel.Typing

def OutOk (o : Outcome Value) (τ : Ty) : Prop :=
  match o with
  | .ok v => HasTy v τ
  | .err e => ValueErr e
  | .panic _ => False

theorem hasTy_opt {v : Value} {τ : Ty} : HasTy v (.opt τ) ↔ (v = .null ∨ HasTy v τ) := by
  rw [HasTy]
theorem hasTy_list {v : Value} {τ : Ty} :
    HasTy v (.list τ) ↔ ∃ xs, v = .list xs ∧ ∀ x ∈ xs, HasTy x τ := by
  rw [HasTy]
theorem hasTy_map {v : Value} {κ τ : Ty} :
    HasTy v (.map κ τ) ↔ ∃ m, v = .map m ∧ ∀ kv ∈ m, HasTy kv.1.toValue κ ∧ HasTy kv.2 τ := by
  rw [HasTy]

theorem sat_lift_typed {o : Outcome Value} {τ : Ty} (h : OutOk o τ) :
    Sat (M.lift o : EvalM Value) (fun v => HasTy v τ) ValueErr := by
  apply Sat.lift
  cases o <;> exact h

theorem intArith_typed (op : ArithOp) (i j : Int) :
    OutOk ((intArith op i j).map Value.int) .int := by
  cases op <;> simp only [intArith, chk] <;> (repeat' split) <;>
    first | exact ⟨_, rfl⟩ | trivial

theorem uintArith_typed (op : ArithOp) (i j : Int) :
    OutOk ((uintArith op i j).map Value.uint) .uint := by
  cases op <;> simp only [uintArith, chk] <;> (repeat' split) <;>
    first | exact ⟨_, rfl⟩ | trivial

theorem relOp_typed (op : BinOp) (hop : op = .lt ∨ op = .le ∨ op = .gt ∨ op = .ge) (a b : Value) :
    OutOk (relOp op a b) .bool := by
  unfold relOp
  split
  · trivial
  · rcases hop with rfl | rfl | rfl | rfl <;> exact ⟨_, rfl⟩

theorem applyBin_rel (op : BinOp) (hop : op = .lt ∨ op = .le ∨ op = .gt ∨ op = .ge) (a b : Value) :
    applyBin op a b = relOp op a b := by
  rcases hop with rfl | rfl | rfl | rfl <;> rfl

theorem inOp_typed (a b : Value) : OutOk (inOp a b) .bool := by
  unfold inOp
  split
  · exact ⟨_, rfl⟩
  · exact ⟨_, rfl⟩
  · split <;> exact ⟨_, rfl⟩
  · trivial

theorem getD_typed {m : MapV} {κ τ : Ty} (hm : ∀ kv ∈ m, HasTy kv.1.toValue κ ∧ HasTy kv.2 τ)
    (k : Key) : HasTy ((MapV.get m k).getD .null) (.opt τ) := by
  rw [hasTy_opt]
  cases h : MapV.get m k with
  | none => exact Or.inl rfl
  | some v =>
    obtain ⟨k', hk'⟩ := get_mem h
    exact Or.inr (hm _ hk').2

theorem applyBin_typed {op : BinOp} {τa τb τ : Ty} (hty : BinTy op τa τb τ) {a b : Value}
    (ha : HasTy a τa) (hb : HasTy b τb) : OutOk (applyBin op a b) τ := by
  cases hty with
  | intArith aop =>
    obtain ⟨i, rfl⟩ := ha
    obtain ⟨j, rfl⟩ := hb
    have : applyBin (arithToBin aop) (.int i) (.int j) = (intArith aop i j).map .int := by
      cases aop <;> rfl
    rw [this]; exact intArith_typed aop i j
  | uintArith aop =>
    obtain ⟨i, rfl⟩ := ha
    obtain ⟨j, rfl⟩ := hb
    have : applyBin (arithToBin aop) (.uint i) (.uint j) = (uintArith aop i j).map .uint := by
      cases aop <;> rfl
    rw [this]; exact uintArith_typed aop i j
  | dblAdd => obtain ⟨i, rfl⟩ := ha; obtain ⟨j, rfl⟩ := hb; exact ⟨_, rfl⟩
  | dblSub => obtain ⟨i, rfl⟩ := ha; obtain ⟨j, rfl⟩ := hb; exact ⟨_, rfl⟩
  | dblMul => obtain ⟨i, rfl⟩ := ha; obtain ⟨j, rfl⟩ := hb; exact ⟨_, rfl⟩
  | dblDiv => obtain ⟨i, rfl⟩ := ha; obtain ⟨j, rfl⟩ := hb; exact ⟨_, rfl⟩
  | strCat => obtain ⟨i, rfl⟩ := ha; obtain ⟨j, rfl⟩ := hb; exact ⟨_, rfl⟩
  | listCat t =>
    obtain ⟨xs, rfl, hxs⟩ := hasTy_list.mp ha
    obtain ⟨ys, rfl, hys⟩ := hasTy_list.mp hb
    show HasTy (.list (xs ++ ys)) (.list t)
    rw [hasTy_list]
    refine ⟨_, rfl, ?_⟩
    intro x hx
    rcases List.mem_append.mp hx with hx | hx
    · exact hxs x hx
    · exact hys x hx
  | eq => exact ⟨_, rfl⟩
  | ne => exact ⟨_, rfl⟩
  | ordNum op a b hop _ _ => rw [applyBin_rel op hop]; exact relOp_typed op hop _ _
  | ordStr op hop => rw [applyBin_rel op hop]; exact relOp_typed op hop _ _
  | ordBool op hop => rw [applyBin_rel op hop]; exact relOp_typed op hop _ _
  | inList => exact inOp_typed _ _
  | inMap => exact inOp_typed _ _
  | inStr => exact inOp_typed _ _
  | idxList t =>
    obtain ⟨xs, rfl, hxs⟩ := hasTy_list.mp ha
    obtain ⟨i, rfl⟩ := hb
    simp only [applyBin, indexOp]
    split
    · show HasTy _ (.opt t)
      rw [hasTy_opt]
      cases h : xs[i.toNat]? with
      | none => exact Or.inl rfl
      | some x => exact Or.inr (hxs x (List.mem_of_getElem? h))
    · exact hasTy_opt.mpr (Or.inl rfl)
  | idxStr =>
    obtain ⟨s, rfl⟩ := ha
    obtain ⟨i, rfl⟩ := hb
    simp only [applyBin, indexOp]
    split
    · split
      · exact hasTy_opt.mpr (Or.inr ⟨_, rfl⟩)
      · exact hasTy_opt.mpr (Or.inl rfl)
    · exact hasTy_opt.mpr (Or.inl rfl)
  | idxMap k t a hkey =>
    obtain ⟨m, rfl, hm⟩ := hasTy_map.mp ha
    cases τb <;> simp only [Ty.isKey] at hkey <;> try (exact absurd hkey (by decide))
    all_goals
      obtain ⟨x, rfl⟩ := hb
      exact getD_typed hm _

theorem applyUn_typed {op : UnOp} {τa τ : Ty} (hty : UnTy op τa τ) {a : Value}
    (ha : HasTy a τa) : OutOk (applyUn op a) τ := by
  cases hty with
  | not => exact ⟨_, rfl⟩
  | negInt =>
    obtain ⟨i, rfl⟩ := ha
    simp only [applyUn, intNeg, chk]
    split <;> first | exact ⟨_, rfl⟩ | trivial
  | negDbl => obtain ⟨i, rfl⟩ := ha; exact ⟨_, rfl⟩
  | nsf => cases a <;> exact ⟨_, rfl⟩


/-! ### the standard functions -/

theorem sizeFn_typed (v : Value) : OutOk (sizeFn v) .int := by
  cases v <;> first | exact ⟨_, rfl⟩ | trivial

theorem stringFn_typed (v : Value) : OutOk (stringFn v) .str := by
  cases v <;> first | exact ⟨_, rfl⟩ | trivial

theorem doubleFn_typed (v : Value) : OutOk (doubleFn v) .dbl := by
  cases v <;> simp only [doubleFn] <;> (repeat' split) <;> first | exact ⟨_, rfl⟩ | trivial

theorem intFn_typed (v : Value) : OutOk (intFn v) .int := by
  cases v <;> simp only [intFn] <;> (repeat' split) <;> first | exact ⟨_, rfl⟩ | trivial

theorem uintFn_typed (v : Value) : OutOk (uintFn v) .uint := by
  cases v <;> simp only [uintFn] <;> (repeat' split) <;> first | exact ⟨_, rfl⟩ | trivial

/-- `contains` fails with a bad-key error only for a map receiver and a non-key argument -/
theorem containsFn_typed (t a : Value) (h : (∃ m, t = .map m) → a.toKey? ≠ none) :
    OutOk (containsFn t a) .bool := by
  unfold containsFn
  split
  · exact ⟨_, rfl⟩
  · split
    · exact ⟨_, rfl⟩
    · rename_i hnone; exact absurd hnone (h ⟨_, rfl⟩)
  · split <;> exact ⟨_, rfl⟩
  · split <;> exact ⟨_, rfl⟩
  · exact ⟨_, rfl⟩

theorem toKey?_of_isKey {a : Ty} (ha : a.isKey = true) {v : Value} (hv : HasTy v a) :
    v.toKey? ≠ none := by
  cases a <;> simp only [Ty.isKey] at ha <;> try (exact absurd ha (by decide))
  all_goals
    obtain ⟨x, rfl⟩ := hv
    simp [Value.toKey?]

/-- the parameter type `t` of `FromValue` accepts every value of type `a` unchanged -/
def ExtCompat (t : ExtTy) (a : Ty) : Prop := ∀ v, HasTy v a → fromValue t v = .ok v

theorem extCompat_value (a : Ty) : ExtCompat .value a := fun v _ => C07.fromValue_value v

theorem extCompat_str : ExtCompat .str .str := by
  rintro v ⟨s, rfl⟩; rfl

/-- how the typed arguments of a standard function reach the built-in `b`: the shape of its
signature, that extraction accepts the typed values, and that the built-in applied to typed
parameters yields a typed outcome -/
inductive ArgsOk (b : Builtin) (τ : Ty) : Bool → List Ty → Prop where
  | this1 (recv : Bool) (t : ExtTy) (a : Ty) (hsig : b.sig = [.this t]) (hc : ExtCompat t a)
      (hsem : ∀ ctx v, HasTy v a → OutOk (applyBuiltin ctx b [v]) τ) : ArgsOk b τ recv [a]
  | pos1 (t : ExtTy) (a : Ty) (hsig : b.sig = [.pos t]) (hc : ExtCompat t a)
      (hsem : ∀ ctx v, HasTy v a → OutOk (applyBuiltin ctx b [v]) τ) : ArgsOk b τ false [a]
  | thisPos (recv : Bool) (t t2 : ExtTy) (a a2 : Ty) (hsig : b.sig = [.this t, .pos t2])
      (hc : ExtCompat t a) (hc2 : ExtCompat t2 a2)
      (hsem : ∀ ctx v w, HasTy v a → HasTy w a2 → OutOk (applyBuiltin ctx b [v, w]) τ) :
      ArgsOk b τ recv [a, a2]

/-- the registry entry and the dispatch facts of a standard function name -/
structure FnSpec (f : String) (b : Builtin) : Prop where
  std : ∀ ctx, StdFns ctx → ctx.getFunction f = some (.builtin b)
  nb : binOpOfName f = none
  nu : unOpOfName f = none

theorem fnSpec_size : FnSpec "size" .size := ⟨fun _ h => h.1, by decide, by decide⟩
theorem fnSpec_contains : FnSpec "contains" .contains := ⟨fun _ h => h.2.1, by decide, by decide⟩
theorem fnSpec_startsWith : FnSpec "startsWith" .startsWith :=
  ⟨fun _ h => h.2.2.1, by decide, by decide⟩
theorem fnSpec_endsWith : FnSpec "endsWith" .endsWith :=
  ⟨fun _ h => h.2.2.2.1, by decide, by decide⟩
theorem fnSpec_matches : FnSpec "matches" .matches :=
  ⟨fun _ h => h.2.2.2.2.1, by decide, by decide⟩
theorem fnSpec_string : FnSpec "string" .string :=
  ⟨fun _ h => h.2.2.2.2.2.1, by decide, by decide⟩
theorem fnSpec_bytes : FnSpec "bytes" .bytes :=
  ⟨fun _ h => h.2.2.2.2.2.2.1, by decide, by decide⟩
theorem fnSpec_int : FnSpec "int" .int :=
  ⟨fun _ h => h.2.2.2.2.2.2.2.1, by decide, by decide⟩
theorem fnSpec_uint : FnSpec "uint" .uint :=
  ⟨fun _ h => h.2.2.2.2.2.2.2.2.1, by decide, by decide⟩
theorem fnSpec_double : FnSpec "double" .double :=
  ⟨fun _ h => h.2.2.2.2.2.2.2.2.2, by decide, by decide⟩

theorem matches_typed (ctx : Ctx) (v w : Value) (hv : HasTy v .str) (hw : HasTy w .str) :
    OutOk (applyBuiltin ctx .matches [v, w]) .bool := by
  obtain ⟨s, rfl⟩ := hv
  obtain ⟨p, rfl⟩ := hw
  simp only [applyBuiltin]
  split <;> first | exact ⟨_, rfl⟩ | trivial

/-- every rule of `FnTy` names a registered built-in whose signature fits the typed arguments -/
theorem fnTy_spec {f : String} {recv : Bool} {τs : List Ty} {τ : Ty} (h : FnTy f recv τs τ) :
    ∃ b, FnSpec f b ∧ ArgsOk b τ recv τs := by
  cases h with
  | size recv a h =>
    exact ⟨_, fnSpec_size, .this1 recv .value a rfl (extCompat_value a) (fun _ v _ => sizeFn_typed v)⟩
  | containsList t a =>
    refine ⟨_, fnSpec_contains, .thisPos true .value .value _ _ rfl (extCompat_value _)
      (extCompat_value _) (fun _ v w hv _ => containsFn_typed v w ?_)⟩
    rintro ⟨m, rfl⟩
    obtain ⟨xs, hxs, _⟩ := hasTy_list.mp hv
    cases hxs
  | containsMap k t a ha =>
    exact ⟨_, fnSpec_contains, .thisPos true .value .value _ _ rfl (extCompat_value _)
      (extCompat_value _) (fun _ v w _ hw => containsFn_typed v w (fun _ => toKey?_of_isKey ha hw))⟩
  | containsStr =>
    refine ⟨_, fnSpec_contains, .thisPos true .value .value _ _ rfl (extCompat_value _)
      (extCompat_value _) (fun _ v w hv _ => containsFn_typed v w ?_)⟩
    rintro ⟨m, rfl⟩
    obtain ⟨s, hs⟩ := hv
    cases hs
  | containsBytes =>
    refine ⟨_, fnSpec_contains, .thisPos true .value .value _ _ rfl (extCompat_value _)
      (extCompat_value _) (fun _ v w hv _ => containsFn_typed v w ?_)⟩
    rintro ⟨m, rfl⟩
    obtain ⟨s, hs⟩ := hv
    cases hs
  | startsWith =>
    refine ⟨_, fnSpec_startsWith, .thisPos true .str .str _ _ rfl extCompat_str extCompat_str ?_⟩
    rintro _ v w ⟨s, rfl⟩ ⟨p, rfl⟩
    exact ⟨_, rfl⟩
  | endsWith =>
    refine ⟨_, fnSpec_endsWith, .thisPos true .str .str _ _ rfl extCompat_str extCompat_str ?_⟩
    rintro _ v w ⟨s, rfl⟩ ⟨p, rfl⟩
    exact ⟨_, rfl⟩
  | «matches» recv =>
    exact ⟨_, fnSpec_matches, .thisPos recv .str .str _ _ rfl extCompat_str extCompat_str
      matches_typed⟩
  | string recv a h =>
    exact ⟨_, fnSpec_string, .this1 recv .value a rfl (extCompat_value a)
      (fun _ v _ => stringFn_typed v)⟩
  | bytes =>
    refine ⟨_, fnSpec_bytes, .pos1 .str _ rfl extCompat_str ?_⟩
    rintro _ v ⟨s, rfl⟩
    exact ⟨_, rfl⟩
  | int recv a h =>
    exact ⟨_, fnSpec_int, .this1 recv .value a rfl (extCompat_value a) (fun _ v _ => intFn_typed v)⟩
  | uint recv a h =>
    exact ⟨_, fnSpec_uint, .this1 recv .value a rfl (extCompat_value a) (fun _ v _ => uintFn_typed v)⟩
  | double recv a h =>
    exact ⟨_, fnSpec_double, .this1 recv .value a rfl (extCompat_value a)
      (fun _ v _ => doubleFn_typed v)⟩


/-! ### function application -/

/-- the typed triple: a value of type `τ` or a value-dependent error -/
abbrev TSat (m : EvalM Value) (τ : Ty) : Prop := Sat m (fun v => HasTy v τ) ValueErr

theorem ArgsOk.length_le {b : Builtin} {τ : Ty} {recv : Bool} {τs : List Ty}
    (h : ArgsOk b τ recv τs) : τs.length ≤ 2 := by
  cases h <;> simp

theorem list_len0 {α : Type} {l : List α} (h : l.length = 0) : l = [] := by
  match l, h with
  | [], _ => rfl

theorem list_len1 {α : Type} {l : List α} (h : l.length = 1) : ∃ x, l = [x] := by
  match l, h with
  | [x], _ => exact ⟨x, rfl⟩

theorem list_len2 {α : Type} {l : List α} (h : l.length = 2) : ∃ x y, l = [x, y] := by
  match l, h with
  | [x, y], _ => exact ⟨x, y, rfl⟩

theorem applyFn_builtin (ctx : Ctx) (f : String) (b : Builtin) (this : Option Value)
    (thunks : List (EvalM Value)) (argEs : List Expr) :
    applyFn ctx f (.builtin b) this thunks argEs =
      (extract this thunks argEs b.sig 0 >>= fun ps => M.lift (applyBuiltin ctx b ps)) := rfl

theorem applyFn_global_typed (ctx : Ctx) (f : String) {b : Builtin} {τ : Ty} {τs : List Ty}
    (h : ArgsOk b τ false τs) (args : List Expr) (hlen : args.length = τs.length)
    (hth : ∀ i (hi : i < args.length), TSat (eval ctx args[i]) (τs[i]'(hlen ▸ hi))) :
    TSat (applyFn ctx f (.builtin b) none (evalThunks ctx args) args) τ := by
  rw [applyFn_builtin]
  cases h with
  | this1 _ t a hsig hc hsem =>
    obtain ⟨x, rfl⟩ := list_len1 hlen
    have hx : TSat (eval ctx x) a := hth 0 (by simp)
    rw [evalThunks_one, hsig]
    apply Sat.bind (extract_this_global _ _ t hx hc)
    rintro ps ⟨v, rfl, hv⟩
    exact sat_lift_typed (hsem ctx v hv)
  | pos1 t a hsig hc hsem =>
    obtain ⟨x, rfl⟩ := list_len1 hlen
    have hx : TSat (eval ctx x) a := hth 0 (by simp)
    rw [evalThunks_one, hsig]
    apply Sat.bind (extract_pos_global _ _ t hx hc)
    rintro ps ⟨v, rfl, hv⟩
    exact sat_lift_typed (hsem ctx v hv)
  | thisPos _ t t2 a a2 hsig hc hc2 hsem =>
    obtain ⟨x, y, rfl⟩ := list_len2 hlen
    have hx : TSat (eval ctx x) a := hth 0 (by simp)
    have hy : TSat (eval ctx y) a2 := hth 1 (by simp)
    rw [evalThunks_two, hsig]
    apply Sat.bind (extract_this_pos_global _ _ _ t t2 hx hc hy hc2)
    rintro ps ⟨v, w, rfl, hv, hw⟩
    exact sat_lift_typed (hsem ctx v w hv hw)

theorem applyFn_member_typed (ctx : Ctx) (f : String) {b : Builtin} {τ τt : Ty} {τs : List Ty}
    (h : ArgsOk b τ true (τt :: τs)) (tv : Value) (htv : HasTy tv τt)
    (args : List Expr) (hlen : args.length = τs.length)
    (hth : ∀ i (hi : i < args.length), TSat (eval ctx args[i]) (τs[i]'(hlen ▸ hi))) :
    TSat (applyFn ctx f (.builtin b) (some tv) (evalThunks ctx args) args) τ := by
  rw [applyFn_builtin]
  cases h with
  | this1 _ t a hsig hc hsem =>
    cases list_len0 hlen
    rw [evalThunks_nil, hsig]
    apply Sat.bind (extract_this_recv tv _ _ t (hc tv htv))
    rintro ps rfl
    exact sat_lift_typed (hsem ctx tv htv)
  | thisPos _ t t2 a a2 hsig hc hc2 hsem =>
    obtain ⟨x, rfl⟩ := list_len1 hlen
    have hx : TSat (eval ctx x) a2 := hth 0 (by simp)
    rw [evalThunks_one, hsig]
    apply Sat.bind (extract_this_pos_recv tv _ _ t t2 (hc tv htv) hx hc2)
    rintro ps ⟨w, rfl, hw⟩
    exact sat_lift_typed (hsem ctx tv w htv hw)

/-! ### scopes of a comprehension -/

/-- before the first element: the scope binds the accumulator only -/
def Sc0 (av : String) (α : Ty) (sc : Scope) : Prop :=
  (∃ v, Ctx.lookupScope sc av = some v ∧ HasTy v α) ∧ ∀ n, n ≠ av → Ctx.lookupScope sc n = none

/-- from the first element on: the scope binds the accumulator and the iteration variable -/
def Sc1 (iv av : String) (σ α : Ty) (sc : Scope) : Prop :=
  (∃ v, Ctx.lookupScope sc av = some v ∧ HasTy v α) ∧
  (∃ w, Ctx.lookupScope sc iv = some w ∧ HasTy w σ) ∧
  ∀ n, n ≠ av → n ≠ iv → Ctx.lookupScope sc n = none

theorem lookup_cons (Γ : TEnv) (k n : String) (t : Ty) :
    TEnv.lookup ((k, t) :: Γ) n = if k = n then some t else TEnv.lookup Γ n := by
  simp only [TEnv.lookup, beq_iff_eq]

theorem ctxOk_push0 {Γ : TEnv} {ctx : Ctx} (hctx : CtxOk Γ ctx) {av : String} {α : Ty} {sc : Scope}
    (h : Sc0 av α sc) : CtxOk ((av, α) :: Γ) (ctx.push sc) := by
  intro n τ hn
  rw [lookup_cons] at hn
  rw [getVariable_push]
  split at hn
  · rename_i heq; subst heq; cases hn
    obtain ⟨v, hv, hty⟩ := h.1
    exact ⟨v, by rw [hv], hty⟩
  · rename_i hne
    rw [h.2 n (fun e => hne e.symm)]
    exact hctx n τ hn

theorem ctxOk_push1 {Γ : TEnv} {ctx : Ctx} (hctx : CtxOk Γ ctx) {iv av : String} {σ α : Ty}
    {sc : Scope} (h : Sc1 iv av σ α sc) : CtxOk ((av, α) :: (iv, σ) :: Γ) (ctx.push sc) := by
  intro n τ hn
  rw [lookup_cons] at hn
  rw [getVariable_push]
  split at hn
  · rename_i heq; subst heq; cases hn
    obtain ⟨v, hv, hty⟩ := h.1
    exact ⟨v, by rw [hv], hty⟩
  · rename_i hne
    rw [lookup_cons] at hn
    split at hn
    · rename_i heq; subst heq; cases hn
      obtain ⟨w, hw, hty⟩ := h.2.1
      exact ⟨w, by rw [hw], hty⟩
    · rename_i hne2
      rw [h.2.2 n (fun e => hne e.symm) (fun e => hne2 e.symm)]
      exact hctx n τ hn

theorem sc0_init (av : String) (α : Ty) (v : Value) (hv : HasTy v α) : Sc0 av α [(av, v)] := by
  refine ⟨⟨v, by simp [Ctx.lookupScope], hv⟩, ?_⟩
  intro n hn
  have : (av == n) = false := by simp; exact fun e => hn e.symm
  simp [Ctx.lookupScope, this]

theorem sc1_insert_iv {iv av : String} {σ α : Ty} (hne : iv ≠ av) {sc : Scope}
    (h : Sc0 av α sc ∨ Sc1 iv av σ α sc) {item : Value} (hitem : HasTy item σ) :
    Sc1 iv av σ α (Ctx.scopeInsert sc iv item) := by
  have hav : ∃ v, Ctx.lookupScope sc av = some v ∧ HasTy v α := h.elim (·.1) (·.1)
  have hother : ∀ n, n ≠ av → n ≠ iv → Ctx.lookupScope sc n = none :=
    h.elim (fun h0 n h1 _ => h0.2 n h1) (·.2.2)
  refine ⟨?_, ⟨item, ?_, hitem⟩, ?_⟩
  · rw [C11.lookup_scopeInsert, if_neg (fun e => hne e.symm)]
    exact hav
  · rw [C11.lookup_scopeInsert, if_pos rfl]
  · intro n h1 h2
    rw [C11.lookup_scopeInsert, if_neg h2]
    exact hother n h1 h2

theorem sc1_insert_av {iv av : String} {σ α : Ty} (hne : iv ≠ av) {sc : Scope}
    (h : Sc1 iv av σ α sc) {acc : Value} (hacc : HasTy acc α) :
    Sc1 iv av σ α (Ctx.scopeInsert sc av acc) := by
  refine ⟨⟨acc, ?_, hacc⟩, ?_, ?_⟩
  · rw [C11.lookup_scopeInsert, if_pos rfl]
  · rw [C11.lookup_scopeInsert, if_neg hne]
    exact h.2.1
  · intro n h1 h2
    rw [C11.lookup_scopeInsert, if_neg h1]
    exact h.2.2 n h1 h2

/-! ### the rules -/

/-- what the induction proves of a typing derivation -/
def Sound (fns : List String) (Γ : TEnv) (e : Expr) (τ : Ty) : Prop :=
  ∀ ctx : Ctx, (∀ n, ctx.hasFunction n = true → n ∈ fns) → StdFns ctx → CtxOk Γ ctx →
    TSat (eval ctx e) τ

theorem sound_comp {fns : List String} {Γ : TEnv} {iv av : String}
    {range init cond step result : Expr} {τr σ α ρ : Ty} (hne : iv ≠ av)
    (hr : ∀ r, HasTy r τr → (∃ xs, r = .list xs ∧ ∀ x ∈ xs, HasTy x σ) ∨
      (∃ m, r = .map m ∧ ∀ kv ∈ m, HasTy kv.1.toValue σ))
    (hrange : Sound fns Γ range τr)
    (hinit : Sound fns Γ init α)
    (hcond0 : Sound fns ((av, α) :: Γ) cond .bool)
    (hcond1 : Sound fns ((av, α) :: (iv, σ) :: Γ) cond .bool)
    (hstep : Sound fns ((av, α) :: (iv, σ) :: Γ) step α)
    (hres0 : Sound fns ((av, α) :: Γ) result ρ)
    (hres1 : Sound fns ((av, α) :: (iv, σ) :: Γ) result ρ) :
    Sound fns Γ (.comp iv range av init cond step result) ρ := by
  intro ctx hfns hstd hctx
  rw [eval]
  apply Sat.tick_bind
  apply Sat.bind (hinit ctx hfns hstd hctx); intro vinit hvinit
  apply Sat.bind (hrange ctx hfns hstd hctx); intro r hrty
  apply Sat.bind (Q := fun items => ∀ x ∈ items, HasTy x σ)
  · rcases hr r hrty with ⟨xs, rfl, hxs⟩ | ⟨m, rfl, hm⟩
    · exact Sat.pure hxs
    · apply Sat.pure
      intro x hx
      obtain ⟨kv, hkv, rfl⟩ := List.mem_map.mp hx
      exact hm kv hkv
  · intro items hitems
    apply Sat.bind (loopG_inv iv av _ _ (fun sc => Sc0 av α sc ∨ Sc1 iv av σ α sc)
      (fun x => HasTy x σ) ?_ ?_ items hitems [(av, vinit)] (Or.inl (sc0_init av α vinit hvinit)))
    · intro sc hsc
      rcases hsc with h0 | h1
      · exact hres0 (ctx.push sc) hfns hstd (ctxOk_push0 hctx h0)
      · exact hres1 (ctx.push sc) hfns hstd (ctxOk_push1 hctx h1)
    · intro sc hsc
      rcases hsc with h0 | h1
      · exact (hcond0 (ctx.push sc) hfns hstd (ctxOk_push0 hctx h0)).weaken
          (fun _ _ => trivial) (fun _ h => h)
      · exact (hcond1 (ctx.push sc) hfns hstd (ctxOk_push1 hctx h1)).weaken
          (fun _ _ => trivial) (fun _ h => h)
    · intro sc item hsc hitem
      have h1 := sc1_insert_iv hne hsc hitem
      exact (hstep (ctx.push _) hfns hstd (ctxOk_push1 hctx h1)).weaken
        (fun acc hacc => Or.inr (sc1_insert_av hne h1 hacc)) (fun _ h => h)


/-! ### induction on the typing derivation -/

theorem soundness_aux {fns : List String} {Γ : TEnv} {e : Expr} {τ : Ty}
    (h : HasType fns Γ e τ) : Sound fns Γ e τ := by
  induction h with
  | lit Γ v τ h =>
    intro ctx _ _ _
    rw [eval]
    exact Sat.tick_bind (Sat.pure h)
  | ident Γ n τ h =>
    intro ctx _ _ hctx
    obtain ⟨v, hv, hty⟩ := hctx n τ h
    rw [eval]
    apply Sat.tick_bind
    rw [hv]
    exact Sat.pure hty
  | sub Γ e τ _ ih =>
    intro ctx hfns hstd hctx
    exact (ih ctx hfns hstd hctx).weaken (fun v hv => hasTy_opt.mpr (Or.inr hv)) (fun _ h => h)
  | nullOpt Γ e τ _ ih =>
    intro ctx hfns hstd hctx
    exact (ih ctx hfns hstd hctx).weaken (fun v hv => hasTy_opt.mpr (Or.inl hv)) (fun _ h => h)
  | bin Γ f op a b τa τb τ hf hop hty _ _ iha ihb =>
    intro ctx hfns hstd hctx
    rw [eval]
    apply Sat.tick_bind
    rw [evalThunks_two, callNode_bin ctx f op none _ _ _ hf hop]
    apply Sat.bind (iha ctx hfns hstd hctx); intro l hl
    apply Sat.bind (ihb ctx hfns hstd hctx); intro r hr
    exact sat_lift_typed (applyBin_typed hty hl hr)
  | and Γ f a b hf _ _ iha ihb =>
    intro ctx hfns hstd hctx
    rw [eval]
    apply Sat.tick_bind
    rw [evalThunks_two, callNode_and ctx f none _ _ _ hf]
    apply Sat.bind (iha ctx hfns hstd hctx); intro l hl
    split
    · exact Sat.pure ⟨_, rfl⟩
    · apply Sat.bind (ihb ctx hfns hstd hctx); intro r hr
      exact Sat.pure ⟨_, rfl⟩
  | or Γ f a b hf _ _ iha ihb =>
    intro ctx hfns hstd hctx
    rw [eval]
    apply Sat.tick_bind
    rw [evalThunks_two, callNode_or ctx f none _ _ _ hf]
    apply Sat.bind (iha ctx hfns hstd hctx); intro l hl
    split
    · exact Sat.pure hl
    · exact ihb ctx hfns hstd hctx
  | un Γ f op a τa τ hf hty _ iha =>
    intro ctx hfns hstd hctx
    rw [eval]
    apply Sat.tick_bind
    rw [evalThunks_one, callNode_un ctx f op none _ _ hf]
    apply Sat.bind (iha ctx hfns hstd hctx); intro v hv
    exact sat_lift_typed (applyUn_typed hty hv)
  | cond Γ c a b τ _ _ _ ihc iha ihb =>
    intro ctx hfns hstd hctx
    rw [eval]
    apply Sat.tick_bind
    rw [evalThunks_three, callNode_cond]
    apply Sat.bind (ihc ctx hfns hstd hctx); intro cv _
    split
    · exact iha ctx hfns hstd hctx
    · exact ihb ctx hfns hstd hctx
  | list Γ es τ _ ih =>
    intro ctx hfns hstd hctx
    rw [eval]
    apply Sat.tick_bind
    apply Sat.bind (evalList_sat ctx es (fun e he => ih e he ctx hfns hstd hctx)); intro vs hvs
    exact Sat.pure (hasTy_list.mpr ⟨vs, rfl, hvs⟩)
  | map Γ es κ τ hk _ _ ihk ihv =>
    intro ctx hfns hstd hctx
    rw [eval]
    apply Sat.tick_bind
    apply Sat.bind (evalEntries_sat ctx es (fun kv h => ihk kv h ctx hfns hstd hctx)
      (fun kv h => ihv kv h ctx hfns hstd hctx) (fun v hv => toKey?_of_isKey hk hv) []
      (fun _ h => nomatch h))
    intro m hm
    exact Sat.pure (hasTy_map.mpr ⟨m, rfl, hm⟩)
  | select Γ e f τ hf _ ih =>
    intro ctx hfns hstd hctx
    rw [eval]
    apply Sat.tick_bind
    apply Sat.bind (ih ctx hfns hstd hctx); intro v hv
    obtain ⟨m, rfl, hm⟩ := hasTy_map.mp hv
    apply sat_lift_typed
    simp only [member]
    cases hfind : MapV.find? m (Key.str f) with
    | some c =>
      obtain ⟨k', hk'⟩ := find?_mem hfind
      exact (hm _ hk').2
    | none =>
      have hnf : ctx.hasFunction (String.ofList f) = false := by
        cases hh : ctx.hasFunction (String.ofList f) with
        | false => rfl
        | true => exact absurd (hfns _ hh) hf
      simp only [hnf]
      trivial
  | has Γ e f τ _ ih =>
    intro ctx hfns hstd hctx
    rw [eval]
    apply Sat.tick_bind
    apply Sat.bind ((ih ctx hfns hstd hctx).weaken (Q' := Any) (fun _ _ => trivial) (fun _ h => h))
    intro v _
    apply Sat.pure
    unfold hasField
    split <;> exact ⟨_, rfl⟩
  | fnGlobal Γ f args τs τ hty hlen _ ih =>
    intro ctx hfns hstd hctx
    obtain ⟨b, hspec, hargs⟩ := fnTy_spec hty
    rw [eval]
    apply Sat.tick_bind
    rw [callNode_fn_global ctx f _ args _ (hspec.std ctx hstd)
      (by rw [C07.evalThunks_length, hlen]; exact hargs.length_le) hspec.nb hspec.nu]
    exact applyFn_global_typed ctx f hargs args hlen (fun i hi => ih i hi ctx hfns hstd hctx)
  | fnMember Γ f t args τt τs τ hty hlen _ _ iht ih =>
    intro ctx hfns hstd hctx
    obtain ⟨b, hspec, hargs⟩ := fnTy_spec hty
    rw [eval]
    apply Sat.tick_bind
    rw [callNode_fn_member ctx f _ _ args _ (hspec.std ctx hstd)
      (by
        rw [C07.evalThunks_length, hlen]
        have := hargs.length_le
        simp only [List.length_cons] at this
        omega) hspec.nb hspec.nu]
    apply Sat.bind (iht ctx hfns hstd hctx); intro tv htv
    exact applyFn_member_typed ctx f hargs tv htv args hlen
      (fun i hi => ih i hi ctx hfns hstd hctx)
  | compList Γ iv av range init cond step result σ α ρ hne _ _ _ _ _ _ _ ihr ihi ihc0 ihc1 ihs ihr0 ihr1 =>
    exact sound_comp hne (fun r hr => Or.inl (hasTy_list.mp hr)) ihr ihi ihc0 ihc1 ihs ihr0 ihr1
  | compMap Γ iv av range init cond step result σ τv α ρ hne _ _ _ _ _ _ _ ihr ihi ihc0 ihc1 ihs ihr0 ihr1 =>
    refine sound_comp hne (fun r hr => Or.inr ?_) ihr ihi ihc0 ihc1 ihs ihr0 ihr1
    obtain ⟨m, rfl, hm⟩ := hasTy_map.mp hr
    exact ⟨m, rfl, fun kv hkv => (hm kv hkv).1⟩


end proof

/-- **Type soundness.** -/
theorem type_soundness (fns : List String) (Γ : TEnv) (e : Expr) (τ : Ty)
    (h : HasType fns Γ e τ) (ctx : Ctx) (hfns : ∀ n, ctx.hasFunction n = true → n ∈ fns)
    (hstd : StdFns ctx) (hctx : CtxOk Γ ctx) :
    Sat (eval ctx e) (fun v => HasTy v τ) ValueErr :=
  soundness_aux h ctx hfns hstd hctx

/-- as a statement about `Program::execute`: no panic, a value of the declared type, or a
value-dependent error -/
theorem well_typed_execute (fns : List String) (Γ : TEnv) (e : Expr) (τ : Ty)
    (h : HasType fns Γ e τ) (ctx : Ctx) (hfns : ∀ n, ctx.hasFunction n = true → n ∈ fns)
    (hstd : StdFns ctx) (hctx : CtxOk Γ ctx) :
    match (execute ctx e).1 with
    | .ok v => HasTy v τ
    | .err err => ValueErr err
    | .panic _ => False := by
  have hs := type_soundness fns Γ e τ h ctx hfns hstd hctx {}
  unfold execute M.run
  generalize eval ctx e {} = r at hs ⊢
  obtain ⟨o, s⟩ := r
  cases o <;> exact hs

/-! ### non-vacuity: `[1, 2].all(x, x + 1 > 0) ? size('ab') : {'k': 3}['k']`-like pieces type-check -/

example : HasType [] [] (.call "_+_" [.lit (.int 1), .lit (.int 2)]) .int :=
  .bin _ _ .add _ _ .int .int .int (by decide) (by decide) (.intArith .add) (.lit _ _ _ ⟨1, rfl⟩) (.lit _ _ _ ⟨2, rfl⟩)

example : HasType ["size"] [("l", .list .int)] (.call "_[_]" [.ident "l", .lit (.int 0)]) (.opt .int) :=
  .bin _ _ .index _ _ (.list .int) .int _ (by decide) (by decide) (.idxList .int) (.ident _ _ _ rfl) (.lit _ _ _ ⟨0, rfl⟩)

end Cel.Props.C03
