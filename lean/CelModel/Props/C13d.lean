import CelModel.Props.C13c
import CelModel.Lemmas.F64Clamp
/-!
# C13 (continued) — a decimal double literal / `double(string)` text denotes the nearest double

`F64.parse` computes the exact rational a decimal text denotes and rounds it once with
`roundRatPos` (round to nearest, ties to even: `roundRatPos_of_interval`).  For speed it clamps
far-away magnitudes before building the rational (more than 330 decimal orders of magnitude
above 1: infinity; more than 400 below: zero; exponents of more than seven significant digits).
This file shows that the clamps never change the answer: on every well-formed decimal text
`parse` returns exactly what rounding the exact rational returns.
-/
namespace Cel.Props.C13
open Cel Cel.F64

/-- a rational at or above `2^1024` overflows -/
theorem roundRatPos_overflow (num den : Nat) (hden : 0 < den) (h : 2 ^ 1024 * den ≤ num) :
    roundRatPos num den = none :=
  roundRatPos_overflow' num den hden h

/-- a positive rational below `2^-1076` (less than half the smallest subnormal) rounds to `+0` -/
theorem roundRatPos_underflow (num den : Nat) (hnum : 0 < num) (hden : 0 < den)
    (h : num * 2 ^ 1076 < den) : roundRatPos num den = some 0 :=
  roundRatPos_underflow' num den hnum hden h

/-- the last stage of `parse` without any clamp: round the exact rational `digits × 10^e10` -/
def parseFinExact (neg : Bool) (ip fp : List Char) (ex : Int) : UInt64 :=
  let mant := digitsToNat (ip ++ fp)
  let e10 : Int := ex - (fp.length : Int)
  if mant == 0 then (if neg then signBit else 0)
  else if e10 ≥ 0 then ofRat neg (mant * 10 ^ e10.toNat) 1
  else ofRat neg mant (10 ^ (-e10).toNat)

/-- THE MAGNITUDE CLAMPS ARE SOUND: for digit strings `ip`, `fp` and any exponent, the clamped
stage equals the exact one -/
theorem parseFin_eq_exact (neg : Bool) (ip fp : List Char) (ex : Int)
    (hip : ∀ c ∈ ip, isDigit c = true) (hfp : ∀ c ∈ fp, isDigit c = true) :
    parseFin neg ip fp ex = parseFinExact neg ip fp ex :=
  parseFin_eq_exactFin neg ip fp ex hip hfp

/-- the exponent clamp is sound: an exponent of more than seven significant digits gives the same
result as `±10^7`, for mantissas of fewer than a million digits -/
theorem parseFinExact_big_exponent (neg : Bool) (ip fp : List Char) (ex : Int)
    (hip : ∀ c ∈ ip, isDigit c = true) (hfp : ∀ c ∈ fp, isDigit c = true)
    (hlen : ip.length + fp.length ≤ 1000000) (hbig : 10000000 ≤ ex.natAbs) :
    parseFinExact neg ip fp ex = parseFinExact neg ip fp (if ex < 0 then -10000000 else 10000000) :=
  exactFin_big_exponent neg ip fp ex hip hfp hlen hbig

/-- the exponent part of a text: `e`/`E`, an optional sign, digits -/
def expText (upper : Bool) (sign : Option Bool) (ed : List Char) : List Char :=
  (if upper then 'E' else 'e') :: ((match sign with | none => [] | some true => ['-'] | some false => ['+']) ++ ed)

/-- the exponent the text denotes -/
def expValue (sign : Option Bool) (ed : List Char) : Int :=
  if sign = some true then -(digitsToNat ed : Int) else (digitsToNat ed : Int)

theorem expChar_cases (upper : Bool) :
    (if upper then 'E' else 'e') = 'e' ∨ (if upper then 'E' else 'e') = 'E' := by
  cases upper
  · exact Or.inl rfl
  · exact Or.inr rfl

/-- the exponent text is `e`/`E`, sign characters, digits; its value has the sign of the text -/
theorem expText_shape (upper : Bool) (sign : Option Bool) (ed : List Char) :
    ∃ (sg : List Char) (eneg : Bool), SignChars sg eneg ∧
      expText upper sign ed = (if upper then 'E' else 'e') :: (sg ++ ed) ∧
      expValue sign ed = if eneg then -(digitsToNat ed : Int) else digitsToNat ed := by
  unfold expText expValue
  rcases sign with _ | _ | _
  · exact ⟨[], false, Or.inr (Or.inr ⟨rfl, rfl⟩), rfl, by simp⟩
  · exact ⟨['+'], false, Or.inr (Or.inl ⟨rfl, rfl⟩), rfl, by simp⟩
  · exact ⟨['-'], true, Or.inl ⟨rfl, rfl⟩, rfl, by simp⟩

/-- READING: `-?ddd.ddd[eE][+-]?ddd` parses to the exact rounding of the rational it denotes,
whatever the padding and the magnitude -/
theorem parse_dot_exp (neg : Bool) (ip fp ed : List Char) (upper : Bool) (sign : Option Bool)
    (hne : ip ≠ []) (hed : ed ≠ [])
    (hip : ∀ c ∈ ip, isDigit c = true) (hfp : ∀ c ∈ fp, isDigit c = true)
    (hedd : ∀ c ∈ ed, isDigit c = true) (hlen : ip.length + fp.length ≤ 1000000) :
    parse (signCs neg ++ (ip ++ '.' :: (fp ++ expText upper sign ed))) =
      some (parseFinExact neg ip fp (expValue sign ed)) := by
  obtain ⟨sg, eneg, hs, htxt, hval⟩ := expText_shape upper sign ed
  rw [htxt, hval]
  exact parse_dot_exp_exact neg ip fp ed sg _ eneg hne hed hip hfp hedd hlen (expChar_cases upper) hs

/-- `-?ddd[eE][+-]?ddd` -/
theorem parse_int_exp (neg : Bool) (ip ed : List Char) (upper : Bool) (sign : Option Bool)
    (hne : ip ≠ []) (hed : ed ≠ [])
    (hip : ∀ c ∈ ip, isDigit c = true) (hedd : ∀ c ∈ ed, isDigit c = true)
    (hlen : ip.length ≤ 1000000) :
    parse (signCs neg ++ (ip ++ expText upper sign ed)) =
      some (parseFinExact neg ip [] (expValue sign ed)) := by
  obtain ⟨sg, eneg, hs, htxt, hval⟩ := expText_shape upper sign ed
  rw [htxt, hval]
  exact parse_int_exp_exact neg ip ed sg _ eneg hne hed hip hedd hlen (expChar_cases upper) hs

/-- `-?ddd.ddd` and `-?ddd` without an exponent (the layouts of `parse_dot` / `parse_int`), exact -/
theorem parse_dot_exact (neg : Bool) (ip fp : List Char) (hne : ip ≠ [])
    (hip : ∀ c ∈ ip, isDigit c = true) (hfp : ∀ c ∈ fp, isDigit c = true) :
    parse (signCs neg ++ (ip ++ '.' :: fp)) = some (parseFinExact neg ip fp 0) := by
  rw [parse_dot neg ip fp hne hip hfp, parseFin_eq_exact neg ip fp 0 hip hfp]

theorem parse_int_exact (neg : Bool) (ip : List Char) (hne : ip ≠ [])
    (hip : ∀ c ∈ ip, isDigit c = true) :
    parse (signCs neg ++ ip) = some (parseFinExact neg ip [] 0) := by
  rw [parse_int neg ip hne hip, parseFin_eq_exact neg ip [] 0 hip (by simp)]

/-- NEAREST DOUBLE: when the rational `digits × 10^e10` lies in the rounding interval of the finite
double `m · 2^e`, the exact stage returns that double (with the sign) -/
theorem parseFinExact_nearest (neg : Bool) (ip fp : List Char) (ex : Int) (m : Nat) (e : Int)
    (hv : ValidFin m e)
    (hin : InInterval m e
      (if ex - (fp.length : Int) ≥ 0 then digitsToNat (ip ++ fp) * 10 ^ (ex - (fp.length : Int)).toNat else digitsToNat (ip ++ fp))
      (if ex - (fp.length : Int) ≥ 0 then 1 else 10 ^ (-(ex - (fp.length : Int))).toNat)) :
    parseFinExact neg ip fp ex = UInt64.ofNat (encodePos m e + (if neg then 2 ^ 63 else 0)) :=
  exactFin_nearest neg ip fp ex m e hv hin

/-- non-vacuity: `0001.50e0000000001` is 15.0, `1e0000000000000000001` is 10.0, and a mantissa
moved 40 places with a compensating exponent is unchanged -/
example : parse "0001.50e0000000001".toList = parse "15.0".toList := by decide +kernel
example : parse "1e0000000000000000001".toList = parse "10".toList := by decide +kernel

end Cel.Props.C13
