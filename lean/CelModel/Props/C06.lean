import CelModel.Lemmas.Monad
/-!
# C06 — logical operators and the conditional evaluate only what they need

`a`, `b`, `c`, `x`, `y` are arbitrary expressions and the statements are about the *whole*
evaluation state (host-call log and step counter included), so they hold at every nesting depth
and inside macro bodies: the skipped operand contributes neither an error nor a log entry nor a
step.
-/
namespace Cel.Props.C06
open Cel

theorem binOp_and : binOpOfName "_&&_" = some .and := by simp [binOpOfName]
theorem binOp_or : binOpOfName "_||_" = some .or := by simp [binOpOfName]

/-- what a call node does after its own tick -/
theorem eval_call (ctx : Ctx) (f : String) (args : List Expr) (st : St Value) :
    eval ctx (.call f args) st = callNode ctx f none args (evalThunks ctx args) (tickSt st) := by
  rw [eval]; rfl

theorem thunks2 (ctx : Ctx) (a b : Expr) : evalThunks ctx [a, b] = [eval ctx a, eval ctx b] := by
  simp [evalThunks]
theorem thunks3 (ctx : Ctx) (a b c : Expr) :
    evalThunks ctx [a, b, c] = [eval ctx a, eval ctx b, eval ctx c] := by
  simp [evalThunks]

/-- `a && b` with `a` false: the result is `false` and the state is exactly the state after
evaluating `a` — nothing of `b` happened, whatever `b` is. -/
theorem and_skips_right (ctx : Ctx) (a b : Expr) (st st1 : St Value) (v : Value)
    (h : eval ctx a (tickSt st) = (.ok v, st1)) (hv : v.truthy = false) :
    eval ctx (.call "_&&_" [a, b]) st = (.ok (.bool false), st1) := by
  rw [eval_call, thunks2]
  simp only [callNode, binOp_and]
  rw [M.bind_ok h]
  simp [hv]

/-- `a && b` with `a` true: `b` is evaluated next, in the state `a` left, and decides. -/
theorem and_evaluates_right_when_needed (ctx : Ctx) (a b : Expr) (st st1 : St Value) (v : Value)
    (h : eval ctx a (tickSt st) = (.ok v, st1)) (hv : v.truthy = true) :
    eval ctx (.call "_&&_" [a, b]) st =
      (eval ctx b >>= fun r => (pure (.bool r.truthy) : EvalM Value)) st1 := by
  rw [eval_call, thunks2]
  simp only [callNode, binOp_and]
  rw [M.bind_ok h]
  simp [hv]

/-- `a || b` with `a` true: the result is `a`'s value and nothing of `b` happened. -/
theorem or_skips_right (ctx : Ctx) (a b : Expr) (st st1 : St Value) (v : Value)
    (h : eval ctx a (tickSt st) = (.ok v, st1)) (hv : v.truthy = true) :
    eval ctx (.call "_||_" [a, b]) st = (.ok v, st1) := by
  rw [eval_call, thunks2]
  simp only [callNode, binOp_or]
  rw [M.bind_ok h]
  simp [hv]

theorem or_evaluates_right_when_needed (ctx : Ctx) (a b : Expr) (st st1 : St Value) (v : Value)
    (h : eval ctx a (tickSt st) = (.ok v, st1)) (hv : v.truthy = false) :
    eval ctx (.call "_||_" [a, b]) st = eval ctx b st1 := by
  rw [eval_call, thunks2]
  simp only [callNode, binOp_or]
  rw [M.bind_ok h]
  simp [hv]

/-- `c ? x : y`: after the condition exactly one branch is evaluated, in the state the
condition left; the other contributes nothing. -/
theorem cond_evaluates_one_branch (ctx : Ctx) (c x y : Expr) (st st1 : St Value) (cv : Value)
    (h : eval ctx c (tickSt st) = (.ok cv, st1)) :
    eval ctx (.call "_?_:_" [c, x, y]) st =
      if cv.truthy then eval ctx x st1 else eval ctx y st1 := by
  rw [eval_call, thunks3]
  simp only [callNode, condName, beq_self_eq_true, if_true]
  rw [M.bind_ok h]
  split <;> rfl

/-- an error in the first operand aborts all three forms with that error, before anything of
the other operands happens -/
theorem first_operand_error_aborts (ctx : Ctx) (a b c : Expr) (st st1 : St Value) (e : ErrC)
    (h : eval ctx a (tickSt st) = (.err e, st1)) :
    eval ctx (.call "_&&_" [a, b]) st = (.err e, st1) ∧
    eval ctx (.call "_||_" [a, b]) st = (.err e, st1) ∧
    eval ctx (.call "_?_:_" [a, b, c]) st = (.err e, st1) := by
  refine ⟨?_, ?_, ?_⟩
  · rw [eval_call, thunks2]; simp only [callNode, binOp_and]; rw [M.bind_err h]
  · rw [eval_call, thunks2]; simp only [callNode, binOp_or]; rw [M.bind_err h]
  · rw [eval_call, thunks3]; simp only [callNode, condName, beq_self_eq_true, if_true]
    rw [M.bind_err h]

/-- the log never grows by a skipped operand: corollary in terms of the host-call log only -/
theorem and_false_log (ctx : Ctx) (a b : Expr) (st st1 : St Value) (v : Value)
    (h : eval ctx a (tickSt st) = (.ok v, st1)) (hv : v.truthy = false) :
    (eval ctx (.call "_&&_" [a, b]) st).2.log = st1.log := by
  rw [and_skips_right ctx a b st st1 v h hv]

theorem or_true_log (ctx : Ctx) (a b : Expr) (st st1 : St Value) (v : Value)
    (h : eval ctx a (tickSt st) = (.ok v, st1)) (hv : v.truthy = true) :
    (eval ctx (.call "_||_" [a, b]) st).2.log = st1.log := by
  rw [or_skips_right ctx a b st st1 v h hv]

/-! ### non-vacuity: a skipped operand that would panic, err and log -/
example : (eval {} (.call "_&&_" [.lit (.bool false), .unspecified]) {}).1 = .ok (.bool false) := by
  rw [and_skips_right {} _ _ {} (tickSt (tickSt {})) (.bool false)] <;> rfl
example : (eval {} (.call "_||_" [.lit (.bool true), .ident "undeclared"]) {}).1 = .ok (.bool true) := by
  rw [or_skips_right {} _ _ {} (tickSt (tickSt {})) (.bool true)] <;> rfl

end Cel.Props.C06
