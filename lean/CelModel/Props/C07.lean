import CelModel.Lemmas.Monad
import CelModel.Props.C06
/-!
# C07 — each operand is evaluated at most once, left to right

The theorems are equations between monadic computations: the right-hand sides spell out the
order in which the operand evaluations are sequenced (receiver, then arguments left to right,
each exactly once), so they determine the host-call log and the step count completely.
(The cost bounds `steps ≤ size` are in `CelModel/Props/C07Cost.lean`.)
-/
namespace Cel.Props.C07
open Cel

/-- running the argument thunks of a call in order is `evalList` -/
theorem runAll_evalThunks (ctx : Ctx) (args : List Expr) :
    runAll (evalThunks ctx args) = evalList ctx args := by
  induction args with
  | nil => simp [evalThunks, runAll, evalList]
  | cons e es ih => simp only [evalThunks, runAll, evalList, ih]

theorem evalThunks_length (ctx : Ctx) (args : List Expr) :
    (evalThunks ctx args).length = args.length := by
  induction args with
  | nil => rfl
  | cons e es ih => simp [evalThunks, ih]

theorem fromValue_value (v : Value) : fromValue .value v = .ok v := by
  cases v <;> rfl

/-- positional `Value` parameters consume the thunks one by one, left to right -/
theorem extract_positional (this : Option Value) (thunks : List (EvalM Value)) (argEs : List Expr) :
    ∀ (k idx : Nat), idx + k = thunks.length →
      extract this thunks argEs (List.replicate k (.pos .value)) idx = runAll (thunks.drop idx) := by
  intro k
  induction k with
  | zero =>
    intro idx h
    have : thunks.drop idx = [] := List.drop_eq_nil_of_le (by omega)
    simp [extract, runAll, this]
  | succ k ih =>
    intro idx h
    have hlt : idx < thunks.length := by omega
    have hd : thunks.drop idx = thunks[idx] :: thunks.drop (idx + 1) := List.drop_eq_getElem_cons hlt
    rw [hd, List.replicate_succ]
    simp only [extract, runAll, List.getElem?_eq_getElem hlt]
    rw [← ih (idx + 1) (by omega)]
    funext s
    simp only [bind, M.bind, pure, M.pure, M.lift, fromValue_value]
    cases h1 : thunks[idx] s with
    | mk o s1 => cases o <;> simp

/-- global call of a host function taking `n` positional values: the arguments are evaluated
once each, left to right, then the call is logged with exactly those values -/
theorem global_call_args_in_order (ctx : Ctx) (f : String) (args : List Expr) (body : HostBody)
    (hf : ctx.getFunction f = some (.host (List.replicate args.length (.pos .value)) body))
    (hop : args.length = 0 ∨ args.length ≥ 4 ∨
      (args.length = 3 ∧ (f == condName) = false) ∨ (args.length = 2 ∧ binOpOfName f = none) ∨
      (args.length = 1 ∧ unOpOfName f = none)) :
    eval ctx (.call f args) = (do
      M.tick
      let vs ← evalList ctx args
      M.logCall { name := f, args := vs }
      match body with
      | .echo => pure (.list vs)
      | .fail => M.throw .functionError
      | .const v => pure v
      | .first => pure (vs.head?.getD .null)) := by
  have hlen := evalThunks_length ctx args
  have hfn : callNode ctx f none args (evalThunks ctx args) =
      applyFn ctx f (.host (List.replicate args.length (.pos .value)) body) none
        (evalThunks ctx args) args := by
    unfold callNode
    simp only [hf]
    match hargs : args, hop with
    | [], _ => simp [evalThunks]
    | [a], h => simp [evalThunks] at h ⊢; simp [h]
    | [a, b], h => simp [evalThunks] at h ⊢; simp [h]
    | [a, b, c], h => simp [evalThunks] at h ⊢; simp [h]
    | a :: b :: c :: d :: rest, _ => simp [evalThunks]
  funext st
  rw [eval]
  simp only [bind, M.bind, M.tick]
  show callNode ctx f none args (evalThunks ctx args) (tickSt st) = _
  rw [hfn]
  simp only [applyFn]
  rw [extract_positional none (evalThunks ctx args) args args.length 0 (by omega)]
  simp only [List.drop_zero, runAll_evalThunks]
  rfl

/-- strict binary operators: left operand, then right operand, each once -/
theorem strict_binop_operands_once_in_order (ctx : Ctx) (op : BinOp) (a b : Expr)
    (hs : op ≠ .and ∧ op ≠ .or) :
    eval ctx (.call op.name [a, b]) = (do
      M.tick
      let l ← eval ctx a
      let r ← eval ctx b
      M.lift (applyBin op l r)) := by
  funext st
  rw [C06.eval_call, C06.thunks2]
  have hname : binOpOfName op.name = some op := by
    cases op <;> simp [BinOp.name, binOpOfName]
  unfold callNode
  simp only [hname]
  cases op <;> simp_all <;> rfl

/-- unary operators: the operand once -/
theorem unop_operand_once (ctx : Ctx) (op : UnOp) (a : Expr) :
    eval ctx (.call op.name [a]) = (do
      M.tick
      let v ← eval ctx a
      M.lift (applyUn op v)) := by
  funext st
  rw [C06.eval_call]
  have hname : unOpOfName op.name = some op := by
    cases op <;> simp [UnOp.name, unOpOfName]
  have : evalThunks ctx [a] = [eval ctx a] := by simp [evalThunks]
  rw [this]
  unfold callNode
  simp only [hname]
  rfl

/-- list literals: elements left to right, each once (`evalList` is a plain left fold) -/
theorem list_literal_in_order (ctx : Ctx) (e : Expr) (es : List Expr) :
    eval ctx (.list (e :: es)) = (do
      M.tick
      let v ← eval ctx e
      let vs ← evalList ctx es
      pure (.list (v :: vs))) := by
  funext st
  rw [eval]
  simp only [evalList, bind, M.bind, pure, M.pure]
  cases h : eval ctx e (M.tick st).2 with
  | mk o s1 =>
    simp only [M.tick] at h ⊢
    rw [h]
    cases o <;> simp
    rename_i v
    cases h2 : evalList ctx es s1 with
    | mk o2 s2 => cases o2 <;> simp

/-- map literals: key before value, entries in source order -/
theorem map_literal_key_then_value (ctx : Ctx) (k v : Expr) (rest : List (Expr × Expr)) (acc : MapV) :
    evalEntries ctx ((k, v) :: rest) acc = (do
      let kv ← eval ctx k
      match kv.toKey? with
      | none => M.throw .badKey
      | some key => do
        let vv ← eval ctx v
        evalEntries ctx rest (MapV.insert acc key vv)) := by
  simp only [evalEntries]
  apply M.bind_congr; intro kv
  cases kv.toKey? <;> rfl

/-- receiver-style call of a host function `this, pos…`: receiver first, then the arguments -/
theorem receiver_then_args_in_order (ctx : Ctx) (f : String) (t : Expr) (args : List Expr)
    (body : HostBody)
    (hf : ctx.getFunction f =
      some (.host (.this .value :: List.replicate args.length (.pos .value)) body))
    (hop : args.length = 0 ∨ args.length ≥ 4 ∨
      (args.length = 3 ∧ (f == condName) = false) ∨ (args.length = 2 ∧ binOpOfName f = none) ∨
      (args.length = 1 ∧ unOpOfName f = none)) :
    eval ctx (.mcall f t args) = (do
      M.tick
      let tv ← eval ctx t
      let vs ← evalList ctx args
      M.logCall { name := f, args := tv :: vs }
      match body with
      | .echo => pure (.list (tv :: vs))
      | .fail => M.throw .functionError
      | .const v => pure v
      | .first => pure tv) := by
  have hlen := evalThunks_length ctx args
  have hfn : callNode ctx f (some (eval ctx t)) args (evalThunks ctx args) = (do
      let tv ← eval ctx t
      applyFn ctx f (.host (.this .value :: List.replicate args.length (.pos .value)) body)
        (some tv) (evalThunks ctx args) args) := by
    unfold callNode
    simp only [hf]
    match hargs : args, hop with
    | [], _ => simp [evalThunks]
    | [a], h => simp [evalThunks] at h ⊢; simp [h]
    | [a, b], h => simp [evalThunks] at h ⊢; simp [h]
    | [a, b, c], h => simp [evalThunks] at h ⊢; simp [h]
    | a :: b :: c :: d :: rest, _ => simp [evalThunks]
  have hex : ∀ tv : Value,
      extract (some tv) (evalThunks ctx args) args
        (.this .value :: List.replicate args.length (.pos .value)) 0 =
      (evalList ctx args >>= fun vs => (pure (tv :: vs) : EvalM (List Value))) := by
    intro tv
    have := extract_positional (some tv) (evalThunks ctx args) args args.length 0 (by omega)
    simp only [List.drop_zero, runAll_evalThunks] at this
    simp only [extract, fromValue_value, M.lift_ok, M.pure_bind, this]
  rw [eval, hfn]
  apply M.bind_congr; intro _
  apply M.bind_congr; intro tv
  simp only [applyFn, hex, M.bind_assoc, M.pure_bind]
  apply M.bind_congr; intro vs
  apply M.bind_congr; intro _
  cases body <;> rfl

end Cel.Props.C07
