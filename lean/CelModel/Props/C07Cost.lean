import CelModel.Lemmas.Monad
import CelModel.Lemmas.Sat
import CelModel.Lemmas.Cost
/-!
# C07 (cost) — evaluation work is bounded by program size times collection sizes

`St.steps` is incremented once per evaluated AST node (`M.tick` at the head of every `eval`
clause), so a bound on the step counter is a bound on the number of node evaluations, hence on
host-function invocations.  The bounds are proved with the counting calculi of
`CelModel/Lemmas/Cost.lean` (`Cost`, `CostQ`, `LogB`), one rule per monadic combinator.
-/
namespace Cel.Props.C07Cost
open Cel

/-- a signature that never evaluates an argument twice: no `Arguments` extractor, or nothing
but it -/
def sigLinear (sig : List Extractor) : Bool :=
  sig.all (fun e => e != .allArgs) || sig == [.allArgs]

/-- every host function registered in the context has a linear signature (all built-ins do) -/
def CtxLinear (ctx : Ctx) : Prop :=
  ∀ n sig body, ctx.getFunction n = some (.host sig body) → sigLinear sig = true

mutual
/-- no comprehension node anywhere in the tree -/
def compFree : Expr → Bool
  | .lit _ => true
  | .ident _ => true
  | .call _ args => compFreeList args
  | .mcall _ t args => compFree t && compFreeList args
  | .select e _ _ => compFree e
  | .list es => compFreeList es
  | .map es => compFreeEntries es
  | .struct _ _ vs => compFreeList vs
  | .comp .. => false
  | .unspecified => true
def compFreeList : List Expr → Bool
  | [] => true
  | e :: es => compFree e && compFreeList es
def compFreeEntries : List (Expr × Expr) → Bool
  | [] => true
  | (k, v) :: es => compFree k && compFree v && compFreeEntries es
end

/-- every built-in signature is linear -/
theorem builtin_sig_linear (b : Builtin) : sigLinear b.sig = true := by
  cases b <;> rfl

/-! ## Argument extraction -/

/-- a consuming extractor: runs the thunk at `idx`, converts, moves on to `idx + 1` -/
theorem consume_cost {γ : Type} (th : EvalM Value) (g : Value → Outcome Value) (idx : Nat)
    (f : Value × Nat → EvalM γ) (c b n : Nat) (hth : Cost th c)
    (hf : ∀ v, Cost (f (v, idx + 1)) b) (h : c + b ≤ n) :
    Cost ((do let a ← th; let v ← M.lift (g a); pure (v, idx + 1) : EvalM (Value × Nat)) >>= f) n := by
  apply Cost.bindQ (Q := fun p => p.2 = idx + 1) (a := c) (b := b) _ _ h
  · apply CostQ.bind hth (b := 0) _ (by omega)
    intro a
    apply CostQ.bind (Cost.lift (n := 0)) (b := 0) _ (by omega)
    intro v
    exact CostQ.pure rfl
  · rintro ⟨v, i⟩ hi
    dsimp only at hi
    subst hi
    exact hf v

/-- a receiver-bound `This` extractor: converts the receiver, consumes nothing -/
theorem receiver_cost {γ : Type} (o : Outcome Value) (idx : Nat)
    (f : Value × Nat → EvalM γ) (n : Nat) (hf : ∀ v, Cost (f (v, idx)) n) :
    Cost ((do let v ← M.lift o; pure (v, idx) : EvalM (Value × Nat)) >>= f) n := by
  apply Cost.bindQ (Q := fun p => p.2 = idx) (a := 0) (b := n) _ _ (by omega)
  · apply CostQ.bind (Cost.lift (n := 0)) (b := 0) _ (by omega)
    intro v
    exact CostQ.pure rfl
  · rintro ⟨v, i⟩ hi
    dsimp only at hi
    subst hi
    exact hf v

theorem throw_bind_cost {γ δ : Type} (e : ErrC) (f : γ → EvalM δ) (n : Nat) :
    Cost ((M.throw e : EvalM γ) >>= f) n :=
  Cost.bindQ (Q := fun _ => False) (a := 0) (b := 0) CostQ.throw (fun _ h => h.elim) (by omega)

/-- the thunks are bounded pointwise by `costs` -/
def ThunkCosts (thunks : List (EvalM Value)) (costs : List Nat) : Prop :=
  ∀ (i : Nat) (t : EvalM Value), thunks[i]? = some t → Cost t (costs[i]?.getD 0)

theorem runAll_cost (thunks : List (EvalM Value)) (costs : List Nat)
    (hth : ThunkCosts thunks costs) : Cost (runAll thunks) costs.sum := by
  induction thunks generalizing costs with
  | nil => unfold runAll; exact Cost.pure
  | cons t ts ih =>
    unfold runAll
    have h0 := hth 0 t rfl
    have hts : ThunkCosts ts (costs.drop 1) := by
      intro i t' ht'
      have := hth (i + 1) t' (by simpa using ht')
      rw [List.getElem?_drop]
      rw [Nat.add_comm 1 i]
      exact this
    have hs := sum_drop costs 0
    rw [List.drop_zero, Nat.zero_add] at hs
    apply Cost.bind h0 (b := (costs.drop 1).sum) _ (by omega)
    intro v
    apply Cost.bind (ih _ hts) (b := 0) _ (by omega)
    intro vs
    exact Cost.pure

/-- a signature without `Arguments` runs the thunks from `idx` on at most once each -/
theorem extract_cost (this : Option Value) (thunks : List (EvalM Value)) (argEs : List Expr)
    (costs : List Nat) (hth : ThunkCosts thunks costs)
    (sig : List Extractor) (hsig : sig.all (fun e => e != .allArgs) = true) (idx : Nat) :
    Cost (extract this thunks argEs sig idx) (costs.drop idx).sum := by
  induction sig generalizing idx with
  | nil => unfold extract; exact Cost.pure
  | cons ex rest ih =>
    rw [List.all_cons, Bool.and_eq_true] at hsig
    obtain ⟨hex, hrest⟩ := hsig
    have hsum := sum_drop costs idx
    have hk : ∀ (i : Nat) (v : Value),
        Cost (do let vs ← extract this thunks argEs rest i; pure (v :: vs) : EvalM (List Value))
          (costs.drop i).sum := by
      intro i v
      apply Cost.bind (ih hrest i) (b := 0) _ (by omega)
      intro vs
      exact Cost.pure
    unfold extract
    cases ex with
    | this t =>
      dsimp only
      split
      · exact receiver_cost _ idx _ _ (fun v => hk idx v)
      · split
        · exact throw_bind_cost _ _ _
        · rename_i th hth'
          exact consume_cost th _ idx _ _ _ _ (hth idx th hth') (fun v => hk (idx + 1) v) (by omega)
    | thisOpt t =>
      dsimp only
      split
      · exact receiver_cost _ idx _ _ (fun v => hk idx v)
      · split
        · exact throw_bind_cost _ _ _
        · rename_i th hth'
          exact consume_cost th _ idx _ _ _ _ (hth idx th hth') (fun v => hk (idx + 1) v) (by omega)
    | pos t =>
      dsimp only
      split
      · exact throw_bind_cost _ _ _
      · rename_i th hth'
        exact consume_cost th _ idx _ _ _ _ (hth idx th hth') (fun v => hk (idx + 1) v) (by omega)
    | posOpt t =>
      dsimp only
      split
      · exact throw_bind_cost _ _ _
      · rename_i th hth'
        exact consume_cost th _ idx _ _ _ _ (hth idx th hth') (fun v => hk (idx + 1) v) (by omega)
    | allArgs => exact absurd hex (by decide)
    | ident =>
      dsimp only
      split
      · exact throw_bind_cost _ _ _
      · rw [M.pure_bind]
        exact (hk (idx + 1) _).weaken (by omega)
      · exact throw_bind_cost _ _ _
    | expr =>
      dsimp only
      split
      · exact throw_bind_cost _ _ _
      · rw [M.pure_bind]
        exact (hk (idx + 1) _).weaken (by omega)

theorem sigLinear_cases {sig : List Extractor} (h : sigLinear sig = true) :
    sig.all (fun e => e != .allArgs) = true ∨ sig = [.allArgs] := by
  unfold sigLinear at h
  rw [Bool.or_eq_true] at h
  rcases h with h | h
  · exact Or.inl h
  · exact Or.inr (eq_of_beq h)

/-- a linear signature runs every thunk at most once -/
theorem extract_linear_cost (this : Option Value) (thunks : List (EvalM Value)) (argEs : List Expr)
    (costs : List Nat) (hth : ThunkCosts thunks costs)
    (sig : List Extractor) (hsig : sigLinear sig = true) :
    Cost (extract this thunks argEs sig 0) costs.sum := by
  rcases sigLinear_cases hsig with h | h
  · have := extract_cost this thunks argEs costs hth sig h 0
    rwa [List.drop_zero] at this
  · subst h
    unfold extract
    dsimp only
    apply Cost.bindQ (Q := fun _ => True) (a := costs.sum) (b := 0) _ _ (by omega)
    · apply CostQ.bind (runAll_cost thunks costs hth) (b := 0) _ (by omega)
      intro vs
      exact CostQ.pure trivial
    · rintro ⟨v, i⟩ _
      dsimp only
      unfold extract
      exact Cost.pure

/-! ## Function application and call nodes -/

theorem applyFn_cost (ctx : Ctx) (hl : CtxLinear ctx) (name : String) (k : FnKind)
    (hk : ctx.getFunction name = some k) (this : Option Value)
    (thunks : List (EvalM Value)) (argEs : List Expr) (costs : List Nat)
    (hth : ThunkCosts thunks costs) :
    Cost (applyFn ctx name k this thunks argEs) costs.sum := by
  cases k with
  | builtin b =>
    unfold applyFn
    dsimp only
    apply Cost.bind (extract_linear_cost this thunks argEs costs hth b.sig (builtin_sig_linear b))
      (b := 0) _ (by omega)
    intro ps
    exact Cost.lift
  | host sig body =>
    unfold applyFn
    dsimp only
    apply Cost.bind (extract_linear_cost this thunks argEs costs hth sig (hl name sig body hk))
      (b := 0) _ (by omega)
    intro ps
    apply Cost.bind (Cost.logCall (n := 0)) (b := 0) _ (by omega)
    intro _
    cases body with
    | echo => exact Cost.pure
    | fail => exact Cost.throw
    | const v => exact Cost.pure
    | first => exact Cost.pure

/-- the function-call fallback of a call node: the receiver once, then each thunk at most once -/
theorem fnCall_cost (ctx : Ctx) (hl : CtxLinear ctx) (f : String) (target : Option (EvalM Value))
    (argEs : List Expr) (thunks : List (EvalM Value)) (costs : List Nat) (ct : Nat)
    (hth : ThunkCosts thunks costs) :
    (∀ t, target = some t → Cost t ct) →
    Cost (match ctx.getFunction f with
      | none => M.throw (.undeclared f)
      | some k =>
        match target with
        | none => applyFn ctx f k none thunks argEs
        | some t => do
          let tv ← t
          applyFn ctx f k (some tv) thunks argEs : EvalM Value) (ct + costs.sum) := by
  intro htg
  split
  · exact Cost.throw
  · rename_i k hk
    split
    · exact (applyFn_cost ctx hl f k hk _ thunks argEs costs hth).weaken (by omega)
    · rename_i t
      apply Cost.bind (htg t rfl) _ (Nat.le_refl _)
      intro tv
      exact applyFn_cost ctx hl f k hk _ thunks argEs costs hth

/-- a call node runs its receiver at most once and each operand at most once -/
theorem callNode_cost (ctx : Ctx) (hl : CtxLinear ctx) (f : String) (target : Option (EvalM Value))
    (argEs : List Expr) (thunks : List (EvalM Value)) (costs : List Nat) (ct : Nat)
    (hth : ThunkCosts thunks costs) (htg : ∀ t, target = some t → Cost t ct) :
    Cost (callNode ctx f target argEs thunks) (ct + costs.sum) := by
  have hfn := fnCall_cost ctx hl f target argEs thunks costs ct hth htg
  have s0 := sum_drop costs 0
  have s1 := sum_drop costs 1
  have s2 := sum_drop costs 2
  rw [List.drop_zero] at s0
  simp only [Nat.zero_add, Nat.reduceAdd] at s0 s1 s2
  unfold callNode
  dsimp only
  split
  · rename_i c a b
    have hc := hth 0 c rfl
    have ha := hth 1 a rfl
    have hb := hth 2 b rfl
    split
    · apply Cost.bind hc (b := costs[1]?.getD 0 + costs[2]?.getD 0) _ (by omega)
      intro cv
      split
      · exact ha.weaken (by omega)
      · exact hb.weaken (by omega)
    · exact hfn
  · rename_i a b
    have ha := hth 0 a rfl
    have hb := hth 1 b rfl
    split
    · apply Cost.bind ha (b := costs[1]?.getD 0) _ (by omega)
      intro l
      split
      · exact Cost.pure
      · exact hb
    · apply Cost.bind ha (b := costs[1]?.getD 0) _ (by omega)
      intro l
      split
      · exact Cost.pure
      · apply Cost.bind hb (b := 0) _ (by omega)
        intro r
        exact Cost.pure
    · apply Cost.bind ha (b := costs[1]?.getD 0) _ (by omega)
      intro l
      apply Cost.bind hb (b := 0) _ (by omega)
      intro r
      exact Cost.lift
    · exact hfn
  · rename_i a
    have ha := hth 0 a rfl
    split
    · apply Cost.bind ha (b := 0) _ (by omega)
      intro v
      exact Cost.lift
    · exact hfn
  · exact hfn

/-! ## The evaluator -/

theorem band_true {a b : Bool} (h : (a && b) = true) : a = true ∧ b = true := by
  simpa using h

theorem sum_map_size (es : List Expr) : (es.map Expr.size).sum = sizeList es := by
  induction es with
  | nil => rw [sizeList]; rfl
  | cons e es ih => rw [sizeList, List.map_cons, List.sum_cons, ih]

/-- the evaluator-wide bound, by structural induction over the tree -/
theorem eval_cost : ∀ e, compFree e = true → ∀ ctx, CtxLinear ctx → Cost (eval ctx e) e.size := by
  apply Expr.rec
    (motive_1 := fun e => compFree e = true → ∀ ctx, CtxLinear ctx → Cost (eval ctx e) e.size)
    (motive_2 := fun es => compFreeList es = true → ∀ ctx, CtxLinear ctx →
      Cost (evalList ctx es) (sizeList es) ∧
      ThunkCosts (evalThunks ctx es) (es.map Expr.size))
    (motive_3 := fun es => compFreeEntries es = true → ∀ ctx, CtxLinear ctx → ∀ acc,
      Cost (evalEntries ctx es acc) (sizeEntries es))
    (motive_4 := fun p => compFree p.1 = true → compFree p.2 = true → ∀ ctx, CtxLinear ctx →
      Cost (eval ctx p.1) p.1.size ∧ Cost (eval ctx p.2) p.2.size)
  · -- lit
    intro v _ ctx _
    rw [eval, Expr.size]
    exact Cost.tick_bind (b := 0) Cost.pure (by omega)
  · -- ident
    intro n _ ctx _
    rw [eval, Expr.size]
    apply Cost.tick_bind (b := 0) _ (by omega)
    split
    · exact Cost.pure
    · exact Cost.throw
  · -- call
    intro f args ih h ctx hl
    rw [compFree] at h
    rw [eval, Expr.size]
    apply Cost.tick_bind (b := sizeList args) _ (by omega)
    have := callNode_cost ctx hl f none args _ _ 0 (ih h ctx hl).2 (fun _ h => nomatch h)
    rw [sum_map_size] at this
    exact this.weaken (by omega)
  · -- mcall
    intro f t args iht ih h ctx hl
    rw [compFree] at h
    obtain ⟨h1, h2⟩ := band_true h
    rw [eval, Expr.size]
    apply Cost.tick_bind (b := t.size + sizeList args) _ (by omega)
    have := callNode_cost ctx hl f (some (eval ctx t)) args _ _ t.size (ih h2 ctx hl).2
      (by intro t' ht'; cases ht'; exact iht h1 ctx hl)
    rw [sum_map_size] at this
    exact this
  · -- select
    intro e field test ih h ctx hl
    rw [compFree] at h
    rw [eval, Expr.size]
    apply Cost.tick_bind (b := e.size) _ (by omega)
    apply Cost.bind (ih h ctx hl) (b := 0) _ (by omega)
    intro v
    split
    · exact Cost.pure
    · exact Cost.lift
  · -- list
    intro es ih h ctx hl
    rw [compFree] at h
    rw [eval, Expr.size]
    apply Cost.tick_bind (b := sizeList es) _ (by omega)
    apply Cost.bind (ih h ctx hl).1 (b := 0) _ (by omega)
    intro vs
    exact Cost.pure
  · -- map
    intro es ih h ctx hl
    rw [compFree] at h
    rw [eval, Expr.size]
    apply Cost.tick_bind (b := sizeEntries es) _ (by omega)
    apply Cost.bind (ih h ctx hl []) (b := 0) _ (by omega)
    intro m
    exact Cost.pure
  · -- struct
    intro name fields vals _ _ ctx _
    rw [eval, Expr.size]
    exact Cost.tick_bind (b := 0) Cost.throw (by omega)
  · -- comp
    intro iv range av init cond step result _ _ _ _ _ h
    rw [compFree] at h
    cases h
  · -- unspecified
    intro _ ctx _
    rw [eval]
    exact Cost.panic
  · -- []
    intro _ ctx _
    refine ⟨?_, ?_⟩
    · rw [evalList]; exact Cost.pure
    · rw [evalThunks]; intro i t ht; simp at ht
  · -- e :: es
    intro e es ihe ihes h ctx hl
    rw [compFreeList] at h
    obtain ⟨h1, h2⟩ := band_true h
    refine ⟨?_, ?_⟩
    · rw [evalList, sizeList]
      apply Cost.bind (ihe h1 ctx hl) (b := sizeList es) _ (by omega)
      intro v
      apply Cost.bind (ihes h2 ctx hl).1 (b := 0) _ (by omega)
      intro vs
      exact Cost.pure
    · rw [evalThunks]
      intro i t ht
      cases i with
      | zero =>
        simp only [List.getElem?_cons_zero, Option.some.injEq] at ht
        subst ht
        simpa using ihe h1 ctx hl
      | succ j =>
        simp only [List.getElem?_cons_succ] at ht
        simpa using (ihes h2 ctx hl).2 j t ht
  · -- entries []
    intro _ ctx _ acc
    rw [evalEntries]
    exact Cost.pure
  · -- entry :: entries
    rintro ⟨k, v⟩ rest ihkv ihrest h ctx hl acc
    rw [compFreeEntries] at h
    obtain ⟨h, hrest⟩ := band_true h
    obtain ⟨hk, hv⟩ := band_true h
    obtain ⟨sk, sv⟩ := ihkv hk hv ctx hl
    dsimp only at sk sv
    rw [evalEntries, sizeEntries]
    apply Cost.bind sk (b := v.size + sizeEntries rest) _ (by omega)
    intro kv
    split
    · exact Cost.throw
    · apply Cost.bind sv (b := sizeEntries rest) _ (by omega)
      intro vv
      exact ihrest hrest ctx hl _
  · -- pair
    intro k v ihk ihv hk hv ctx hl
    exact ⟨ihk hk ctx hl, ihv hv ctx hl⟩

/-- MAIN: a comprehension-free program performs at most `size e` node evaluations — each
operand at most once, so never exponential in the nesting depth of calls. -/
theorem cost_linear_comprehension_free (e : Expr) (h : compFree e = true) (ctx : Ctx)
    (hl : CtxLinear ctx) (s : St Value) :
    (eval ctx e s).2.steps ≤ s.steps + e.size :=
  eval_cost e h ctx hl s

/-- the loop bound in calculus form -/
theorem loopG_cost' (iv av : String) (evCond evStep : Scope → EvalM Value) (Bc Bs : Nat)
    (hc : ∀ sc, Cost (evCond sc) Bc) (hs : ∀ sc, Cost (evStep sc) Bs)
    (items : List Value) (sc : Scope) :
    Cost (loopG iv av evCond evStep items sc) (items.length * (Bc + Bs)) := by
  induction items generalizing sc with
  | nil => unfold loopG; exact Cost.pure
  | cons item rest ih =>
    unfold loopG
    have hlen : (item :: rest).length * (Bc + Bs) = Bc + (Bs + rest.length * (Bc + Bs)) := by
      rw [List.length_cons, Nat.succ_mul]; omega
    rw [hlen]
    apply Cost.bind (hc sc) _ (Nat.le_refl _)
    intro c
    split
    · exact Cost.pure
    · dsimp only
      apply Cost.bind (hs _) _ (Nat.le_refl _)
      intro acc
      exact ih _

/-- the comprehension loop: with per-iteration bounds `Bc`, `Bs` on condition and step the
loop costs at most `items.length * (Bc + Bs)` -/
theorem loopG_cost (iv av : String) (evCond evStep : Scope → EvalM Value) (Bc Bs : Nat)
    (hc : ∀ sc s, (evCond sc s).2.steps ≤ s.steps + Bc)
    (hs : ∀ sc s, (evStep sc s).2.steps ≤ s.steps + Bs)
    (items : List Value) (sc : Scope) (s : St Value) :
    (loopG iv av evCond evStep items sc s).2.steps ≤ s.steps + items.length * (Bc + Bs) :=
  loopG_cost' iv av evCond evStep Bc Bs hc hs items sc s

/-- pushing a variable scope does not touch the function registry -/
theorem ctxLinear_push {ctx : Ctx} (hl : CtxLinear ctx) (sc : Scope) : CtxLinear (ctx.push sc) :=
  hl

/-- one macro level: a comprehension whose five parts are comprehension-free costs at most
`1 + size init + size range + n * (size cond + size step) + size result` node evaluations,
where `n` is the number of elements the range evaluated to (or less when it errs). -/
theorem comp_cost_flat (ctx : Ctx) (hl : CtxLinear ctx) (iv av : String)
    (range init cond step result : Expr)
    (hr : compFree range = true) (hi : compFree init = true) (hc : compFree cond = true)
    (hs : compFree step = true) (hres : compFree result = true)
    (s : St Value) (n : Nat)
    (hn : ∀ s0 v s1, eval ctx range s0 = (.ok v, s1) →
      (match v with | .list xs => xs.length ≤ n | .map m => m.length ≤ n | _ => True)) :
    (eval ctx (.comp iv range av init cond step result) s).2.steps ≤
      s.steps + (1 + init.size + range.size + n * (cond.size + step.size) + result.size) := by
  revert s
  show Cost _ _
  rw [eval]
  apply Cost.tick_bind
    (b := init.size + (range.size + (n * (cond.size + step.size) + result.size))) _ (by omega)
  apply Cost.bind (eval_cost init hi ctx hl) _ (Nat.le_refl _)
  intro vinit
  apply Cost.bindQ (CostQ.of (eval_cost range hr ctx hl) hn) _ (Nat.le_refl _)
  intro r hrn
  apply Cost.bindQ (Q := fun items => items.length ≤ n) (a := 0)
    (b := n * (cond.size + step.size) + result.size) _ _ (by omega)
  · split
    · exact CostQ.pure (by simpa using hrn)
    · exact CostQ.pure (by simpa using hrn)
    · exact CostQ.throw
  · intro items hlen
    have hmul := Nat.mul_le_mul_right (cond.size + step.size) hlen
    apply Cost.bind (loopG_cost' iv av _ _ cond.size step.size
      (fun sc => eval_cost cond hc _ (ctxLinear_push hl sc))
      (fun sc => eval_cost step hs _ (ctxLinear_push hl sc)) items _) (b := result.size) _ (by omega)
    intro sc
    exact eval_cost result hres _ (ctxLinear_push hl sc)

/-! ## Steps grow, and the log grows no faster than the steps -/

theorem runAll_logB (thunks : List (EvalM Value)) (hth : ∀ t ∈ thunks, LogB t 0) :
    LogB (runAll thunks) 0 := by
  induction thunks with
  | nil => unfold runAll; exact LogB.pure
  | cons t ts ih =>
    unfold runAll
    apply LogB.bind (hth t (List.mem_cons_self ..)) (b := 0) _ (by omega)
    intro v
    apply LogB.bind (ih (fun t' h => hth t' (List.mem_cons_of_mem _ h))) (b := 0) _ (by omega)
    intro vs
    exact LogB.pure

/-- running a thunk, converting the value and pairing it with the next index logs nothing beyond
what the thunk logs -/
theorem conv_logB (th : EvalM Value) (g : Value → Outcome Value) (i : Nat) (hth : LogB th 0) :
    LogB (do let a ← th; let v ← M.lift (g a); pure (v, i) : EvalM (Value × Nat)) 0 := by
  apply LogB.bind hth (b := 0) _ (by omega)
  intro a
  apply LogB.bind (LogB.lift (k := 0)) (b := 0) _ (by omega)
  intro v
  exact LogB.pure

/-- argument extraction (any signature) logs only what the thunks it runs log -/
theorem extract_logB (this : Option Value) (thunks : List (EvalM Value)) (argEs : List Expr)
    (hth : ∀ t ∈ thunks, LogB t 0) (sig : List Extractor) (idx : Nat) :
    LogB (extract this thunks argEs sig idx) 0 := by
  induction sig generalizing idx with
  | nil => unfold extract; exact LogB.pure
  | cons ex rest ih =>
    unfold extract
    apply LogB.bind (a := 0) (b := 0) _ _ (by omega)
    · cases ex with
      | this t =>
        dsimp only
        split
        · apply LogB.bind (LogB.lift (k := 0)) (b := 0) _ (by omega)
          intro v
          exact LogB.pure
        · split
          · exact LogB.throw
          · rename_i th hth'
            exact conv_logB th _ _ (hth th (List.mem_of_getElem? hth'))
      | thisOpt t =>
        dsimp only
        split
        · apply LogB.bind (LogB.lift (k := 0)) (b := 0) _ (by omega)
          intro v
          exact LogB.pure
        · split
          · exact LogB.throw
          · rename_i th hth'
            exact conv_logB th _ _ (hth th (List.mem_of_getElem? hth'))
      | pos t =>
        dsimp only
        split
        · exact LogB.throw
        · rename_i th hth'
          exact conv_logB th _ _ (hth th (List.mem_of_getElem? hth'))
      | posOpt t =>
        dsimp only
        split
        · exact LogB.throw
        · rename_i th hth'
          exact conv_logB th _ _ (hth th (List.mem_of_getElem? hth'))
      | allArgs =>
        dsimp only
        apply LogB.bind (runAll_logB thunks hth) (b := 0) _ (by omega)
        intro vs
        exact LogB.pure
      | ident =>
        dsimp only
        split
        · exact LogB.throw
        · exact LogB.pure
        · exact LogB.throw
      | expr =>
        dsimp only
        split
        · exact LogB.throw
        · exact LogB.pure
    · rintro ⟨v, idx'⟩
      dsimp only
      apply LogB.bind (ih idx') (b := 0) _ (by omega)
      intro vs
      exact LogB.pure

/-- invoking a function logs at most one call beyond what its arguments log -/
theorem applyFn_logB (ctx : Ctx) (name : String) (k : FnKind) (this : Option Value)
    (thunks : List (EvalM Value)) (argEs : List Expr) (hth : ∀ t ∈ thunks, LogB t 0) :
    LogB (applyFn ctx name k this thunks argEs) 1 := by
  cases k with
  | builtin b =>
    unfold applyFn
    dsimp only
    apply LogB.bind (extract_logB this thunks argEs hth b.sig 0) (b := 0) _ (by omega)
    intro ps
    exact LogB.lift
  | host sig body =>
    unfold applyFn
    dsimp only
    apply LogB.bind (extract_logB this thunks argEs hth sig 0) (b := 1) _ (by omega)
    intro ps
    apply LogB.bind (LogB.logCall (k := 1) (Nat.le_refl 1)) (b := 0) _ (by omega)
    intro _
    cases body with
    | echo => exact LogB.pure
    | fail => exact LogB.throw
    | const v => exact LogB.pure
    | first => exact LogB.pure

theorem fnCall_logB (ctx : Ctx) (f : String) (target : Option (EvalM Value)) (argEs : List Expr)
    (thunks : List (EvalM Value)) (hth : ∀ t ∈ thunks, LogB t 0) :
    (∀ t, target = some t → LogB t 0) →
    LogB (match ctx.getFunction f with
      | none => M.throw (.undeclared f)
      | some k =>
        match target with
        | none => applyFn ctx f k none thunks argEs
        | some t => do
          let tv ← t
          applyFn ctx f k (some tv) thunks argEs : EvalM Value) 1 := by
  intro htg
  split
  · exact LogB.throw
  · split
    · exact applyFn_logB _ _ _ _ _ _ hth
    · rename_i t
      apply LogB.bind (htg t rfl) (b := 1) _ (by omega)
      intro tv
      exact applyFn_logB _ _ _ _ _ _ hth

theorem callNode_logB (ctx : Ctx) (f : String) (target : Option (EvalM Value)) (argEs : List Expr)
    (thunks : List (EvalM Value)) (hth : ∀ t ∈ thunks, LogB t 0)
    (htg : ∀ t, target = some t → LogB t 0) :
    LogB (callNode ctx f target argEs thunks) 1 := by
  have hfn := fnCall_logB ctx f target argEs thunks hth htg
  unfold callNode
  dsimp only
  split
  · rename_i c a b
    have hc := hth c (by simp)
    have ha := hth a (by simp)
    have hb := hth b (by simp)
    split
    · apply LogB.bind hc (b := 0) _ (by omega)
      intro cv
      split
      · exact ha
      · exact hb
    · exact hfn
  · rename_i a b
    have ha := hth a (by simp)
    have hb := hth b (by simp)
    split
    · apply LogB.bind ha (b := 0) _ (by omega)
      intro l
      split
      · exact LogB.pure
      · exact hb
    · apply LogB.bind ha (b := 0) _ (by omega)
      intro l
      split
      · exact LogB.pure
      · apply LogB.bind hb (b := 0) _ (by omega)
        intro r
        exact LogB.pure
    · apply LogB.bind ha (b := 0) _ (by omega)
      intro l
      apply LogB.bind hb (b := 0) _ (by omega)
      intro r
      exact LogB.lift
    · exact hfn
  · rename_i a
    have ha := hth a (by simp)
    split
    · apply LogB.bind ha (b := 0) _ (by omega)
      intro v
      exact LogB.lift
    · exact hfn
  · exact hfn

theorem loopG_logB (iv av : String) (evCond evStep : Scope → EvalM Value)
    (hc : ∀ sc, LogB (evCond sc) 0) (hs : ∀ sc, LogB (evStep sc) 0)
    (items : List Value) (sc : Scope) : LogB (loopG iv av evCond evStep items sc) 0 := by
  induction items generalizing sc with
  | nil => unfold loopG; exact LogB.pure
  | cons item rest ih =>
    unfold loopG
    apply LogB.bind (hc sc) (b := 0) _ (by omega)
    intro c
    split
    · exact LogB.pure
    · dsimp only
      apply LogB.bind (hs _) (b := 0) _ (by omega)
      intro acc
      exact ih _

/-- every evaluation, in every context: steps never decrease and the log grows by at most the
growth of the steps -/
theorem eval_logB : ∀ e ctx, LogB (eval ctx e) 0 := by
  apply Expr.rec
    (motive_1 := fun e => ∀ ctx, LogB (eval ctx e) 0)
    (motive_2 := fun es => ∀ ctx,
      LogB (evalList ctx es) 0 ∧ ∀ t ∈ evalThunks ctx es, LogB t 0)
    (motive_3 := fun es => ∀ ctx acc, LogB (evalEntries ctx es acc) 0)
    (motive_4 := fun p => ∀ ctx, LogB (eval ctx p.1) 0 ∧ LogB (eval ctx p.2) 0)
  · -- lit
    intro v ctx
    rw [eval]
    exact LogB.tick_bind LogB.pure
  · -- ident
    intro n ctx
    rw [eval]
    apply LogB.tick_bind
    split
    · exact LogB.pure
    · exact LogB.throw
  · -- call
    intro f args ih ctx
    rw [eval]
    apply LogB.tick_bind
    exact callNode_logB ctx f none args _ (ih ctx).2 (fun _ h => nomatch h)
  · -- mcall
    intro f t args iht ih ctx
    rw [eval]
    apply LogB.tick_bind
    refine callNode_logB ctx f _ args _ (ih ctx).2 ?_
    intro t' ht'
    cases ht'
    exact iht ctx
  · -- select
    intro e field test ih ctx
    rw [eval]
    apply LogB.tick_bind
    apply LogB.bind (ih ctx) (b := 0) _ (by omega)
    intro v
    split
    · exact LogB.pure
    · exact LogB.lift
  · -- list
    intro es ih ctx
    rw [eval]
    apply LogB.tick_bind
    apply LogB.bind (ih ctx).1 (b := 0) _ (by omega)
    intro vs
    exact LogB.pure
  · -- map
    intro es ih ctx
    rw [eval]
    apply LogB.tick_bind
    apply LogB.bind (ih ctx []) (b := 0) _ (by omega)
    intro m
    exact LogB.pure
  · -- struct
    intro name fields vals _ ctx
    rw [eval]
    exact LogB.tick_bind LogB.throw
  · -- comp
    intro iv range av init cond step result ihr ihi ihc ihs ihres ctx
    rw [eval]
    apply LogB.tick_bind
    apply LogB.bind (ihi ctx) (b := 1) _ (by omega)
    intro vinit
    apply LogB.bind (ihr ctx) (b := 1) _ (by omega)
    intro r
    apply LogB.bind (a := 0) (b := 1) _ _ (by omega)
    · split
      · exact LogB.pure
      · exact LogB.pure
      · exact LogB.throw
    · intro items
      apply LogB.bind (loopG_logB iv av _ _ (fun sc => ihc _) (fun sc => ihs _) items _)
        (b := 1) _ (by omega)
      intro sc
      exact (ihres _).weaken (by omega)
  · -- unspecified
    intro ctx
    rw [eval]
    exact LogB.panic
  · -- []
    intro ctx
    refine ⟨?_, ?_⟩
    · rw [evalList]; exact LogB.pure
    · rw [evalThunks]; intro t ht; cases ht
  · -- e :: es
    intro e es ihe ihes ctx
    refine ⟨?_, ?_⟩
    · rw [evalList]
      apply LogB.bind (ihe ctx) (b := 0) _ (by omega)
      intro v
      apply LogB.bind (ihes ctx).1 (b := 0) _ (by omega)
      intro vs
      exact LogB.pure
    · rw [evalThunks]
      intro t ht
      rcases List.mem_cons.mp ht with rfl | ht
      · exact ihe ctx
      · exact (ihes ctx).2 t ht
  · -- entries []
    intro ctx acc
    rw [evalEntries]
    exact LogB.pure
  · -- entry :: entries
    rintro ⟨k, v⟩ rest ihkv ihrest ctx acc
    obtain ⟨sk, sv⟩ := ihkv ctx
    rw [evalEntries]
    apply LogB.bind sk (b := 0) _ (by omega)
    intro kv
    split
    · exact LogB.throw
    · apply LogB.bind sv (b := 0) _ (by omega)
      intro vv
      exact ihrest ctx _
  · -- pair
    intro k v ihk ihv ctx
    exact ⟨ihk ctx, ihv ctx⟩

/-- steps only ever grow -/
theorem steps_monotone (e : Expr) (ctx : Ctx) (s : St Value) : s.steps ≤ (eval ctx e s).2.steps :=
  (eval_logB e ctx s).1

/-- each host-function invocation happens inside its own call node, so the number of logged
calls never exceeds the number of node evaluations -/
theorem log_growth_le_steps (e : Expr) (ctx : Ctx) (s : St Value) :
    (eval ctx e s).2.log.length - s.log.length ≤ (eval ctx e s).2.steps - s.steps := by
  have := eval_logB e ctx s
  omega

end Cel.Props.C07Cost
