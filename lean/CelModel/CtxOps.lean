import CelModel.Eval
/-!
# Context operation histories (`interpreter/src/context.rs`)

A host builds contexts by a stack-disciplined sequence of operations (Rust's borrow rules force
inner scopes to be dropped before the parent is touched again).
-/
namespace Cel

inductive CtxOp where
  | define (n : String) (v : Value)      -- `add_variable_from_value` on the current scope
  | openScope                            -- `new_inner_scope`
  | closeScope                           -- the inner scope is dropped
  | addFn (n : String) (k : FnKind)      -- `add_function` (ignored on a child scope)
  | lookup (n : String)                  -- `get_variable`
  | probeFn (n : String)                 -- is a function of that name callable?
deriving Repr, Inhabited

inductive CtxObs where
  | var (v : Option Value)
  | fn (present : Bool)
deriving Repr, Inhabited

namespace Ctx
/-- `Context::add_function`: only the root scope has a registry; on a child it is ignored -/
def addFunction (c : Ctx) (n : String) (k : FnKind) : Ctx :=
  match c.scopes with
  | [_] => { c with fns := (n, k) :: c.fns }
  | _ => c

/-- dropping the innermost scope (never the root) -/
def pop (c : Ctx) : Ctx :=
  match c.scopes with
  | _ :: (s :: rest) => { c with scopes := s :: rest }
  | _ => c
end Ctx

def stepCtx (c : Ctx) : CtxOp → Ctx × Option CtxObs
  | .define n v => (c.bind n v, none)
  | .openScope => (c.push [], none)
  | .closeScope => (c.pop, none)
  | .addFn n k => (c.addFunction n k, none)
  | .lookup n => (c, some (.var (c.getVariable n)))
  | .probeFn n => (c, some (.fn (c.hasFunction n)))

def runCtxOps : Ctx → List CtxOp → List CtxObs
  | _, [] => []
  | c, op :: ops =>
    match stepCtx c op with
    | (c', some o) => o :: runCtxOps c' ops
    | (c', none) => runCtxOps c' ops

end Cel
