import CelModel.Value
/-!
# The lexer of `antlr/src/gen/CEL.g4`

Maximal munch over the token rules, ties broken by rule order (ANTLR semantics); triple-quoted
and raw-triple forms are non-greedy (they end at the first closing delimiter).  Whitespace and
comments are hidden.  Modelled by hand and validated against the generated ANTLR lexer by the
correspondence check.
-/
namespace Cel
namespace Lexer

inductive Tok where
  | sym (s : String)          -- operators, punctuation and the keywords in / true / false / null
  | ident (s : Str)
  | escIdent (s : Str)        -- with the back-ticks
  | int (text : Str)
  | uint (text : Str)
  | float (text : Str)
  | str (text : Str)
  | bytes (text : Str)
deriving Repr, DecidableEq, Inhabited

def isDigit (c : Char) : Bool := '0' ≤ c && c ≤ '9'
def isHex (c : Char) : Bool := isDigit c || ('a' ≤ c && c ≤ 'f') || ('A' ≤ c && c ≤ 'F')
def isLetter (c : Char) : Bool := ('a' ≤ c && c ≤ 'z') || ('A' ≤ c && c ≤ 'Z')
def isIdStart (c : Char) : Bool := isLetter c || c == '_'
def isIdCont (c : Char) : Bool := isLetter c || isDigit c || c == '_'
def isWs (c : Char) : Bool := c == ' ' || c == '\t' || c == '\r' || c == '\n' || c == '\u000C'

/-- length of the longest prefix whose characters all satisfy `p` -/
def spanLen (p : Char → Bool) : Str → Nat
  | c :: cs => if p c then 1 + spanLen p cs else 0
  | [] => 0

/-- `EXPONENT`: (e|E) (+|-)? DIGIT+ ; 0 if absent -/
def exponentLen : Str → Nat
  | c :: cs =>
    if c == 'e' || c == 'E' then
      match cs with
      | s :: ds =>
        if s == '+' || s == '-' then
          let n := spanLen isDigit ds
          if n == 0 then 0 else 2 + n
        else
          let n := spanLen isDigit (s :: ds)
          if n == 0 then 0 else 1 + n
      | [] => 0
    else 0
  | [] => 0

/-- `NUM_FLOAT` -/
def floatLen (s : Str) : Nat :=
  let d := spanLen isDigit s
  let rest := s.drop d
  if d > 0 then
    match rest with
    | '.' :: r =>
      let f := spanLen isDigit r
      if f > 0 then d + 1 + f + exponentLen (r.drop f)
      else
        let e := exponentLen rest
        if e > 0 then d + e else 0
    | _ =>
      let e := exponentLen rest
      if e > 0 then d + e else 0
  else
    match s with
    | '.' :: r =>
      let f := spanLen isDigit r
      if f > 0 then 1 + f + exponentLen (r.drop f) else 0
    | _ => 0

/-- `NUM_INT`: DIGIT+ | '0x' HEXDIGIT+ -/
def intLen (s : Str) : Nat :=
  let hex := match s with
    | '0' :: 'x' :: r => let h := spanLen isHex r; if h > 0 then 2 + h else 0
    | _ => 0
  Nat.max (spanLen isDigit s) hex

/-- `NUM_UINT` -/
def uintLen (s : Str) : Nat :=
  let dec :=
    let d := spanLen isDigit s
    if d > 0 then (match s.drop d with | c :: _ => if c == 'u' || c == 'U' then d + 1 else 0 | [] => 0) else 0
  let hex := match s with
    | '0' :: 'x' :: r =>
      let h := spanLen isHex r
      if h > 0 then (match r.drop h with | c :: _ => if c == 'u' || c == 'U' then 2 + h + 1 else 0 | [] => 0) else 0
    | _ => 0
  Nat.max dec hex

/-- `ESC_SEQ` at the head of the text: its length, 0 if none -/
def escSeqLen : Str → Nat
  | '\\' :: c :: r =>
    if c == 'a' || c == 'b' || c == 'f' || c == 'n' || c == 'r' || c == 't' || c == 'v' || c == '"'
        || c == '\'' || c == '\\' || c == '?' || c == '`' then 2
    else if c == 'x' || c == 'X' then
      (match r with | h1 :: h2 :: _ => if isHex h1 && isHex h2 then 4 else 0 | _ => 0)
    else if c == 'u' then
      (if (r.take 4).length == 4 && (r.take 4).all isHex then 6 else 0)
    else if c == 'U' then
      (if (r.take 8).length == 8 && (r.take 8).all isHex then 10 else 0)
    else if '0' ≤ c && c ≤ '3' then
      (match r with
       | o1 :: o2 :: _ => if '0' ≤ o1 && o1 ≤ '7' && '0' ≤ o2 && o2 ≤ '7' then 4 else 0
       | _ => 0)
    else 0
  | _ => 0

/-- body of a one-line quoted string after the opening quote: length up to and including the
closing quote, 0 if it does not close -/
def quotedBodyLen (q : Char) : (fuel : Nat) → Str → Nat
  | 0, _ => 0
  | fuel + 1, s =>
    match s with
    | [] => 0
    | c :: r =>
      if c == q then 1
      else if c == '\\' then
        let e := escSeqLen s
        if e == 0 then 0
        else (let n := quotedBodyLen q fuel (s.drop e); if n == 0 then 0 else e + n)
      else if c == '\n' || c == '\r' then 0
      else (let n := quotedBodyLen q fuel r; if n == 0 then 0 else 1 + n)

/-- body of a triple-quoted string: non-greedy, ends at the first closing delimiter -/
def tripleBodyLen (q : Char) : (fuel : Nat) → Str → Nat
  | 0, _ => 0
  | fuel + 1, s =>
    match s with
    | [] => 0
    | c :: r =>
      if (s.take 3) == [q, q, q] then 3
      else if c == '\\' then
        let e := escSeqLen s
        if e == 0 then 0
        else (let n := tripleBodyLen q fuel (s.drop e); if n == 0 then 0 else e + n)
      else (let n := tripleBodyLen q fuel r; if n == 0 then 0 else 1 + n)

/-- raw one-line body: anything but the quote and line breaks -/
def rawBodyLen (q : Char) : Str → Nat
  | [] => 0
  | c :: r =>
    if c == q then 1
    else if c == '\n' || c == '\r' then 0
    else (let n := rawBodyLen q r; if n == 0 then 0 else 1 + n)

/-- the ANTLR wildcard `.` as the antlr4rust runtime implements it: every code point strictly
between U+0000 and U+10FFFF (the two extremes are excluded — observed, DESIGN.md D25) -/
def isWildcard (c : Char) : Bool := 0 < c.toNat && c.toNat < 0x10FFFF

/-- raw triple body: anything, up to the first closing delimiter -/
def rawTripleBodyLen (q : Char) : Str → Nat
  | [] => 0
  | c :: r =>
    if ((c :: r).take 3) == [q, q, q] then 3
    else if !isWildcard c then 0
    else (let n := rawTripleBodyLen q r; if n == 0 then 0 else 1 + n)

/-- `STRING`: the longest of its alternatives -/
def stringLen (s : Str) : Nat :=
  let fuel := s.length + 1
  let plain (q : Char) (r : Str) : Nat :=
    let one := (let n := quotedBodyLen q fuel r; if n == 0 then 0 else 1 + n)
    let tri := match r with
      | a :: b :: r' =>
        if a == q && b == q then (let n := tripleBodyLen q fuel r'; if n == 0 then 0 else 3 + n) else 0
      | _ => 0
    Nat.max one tri
  let raw (q : Char) (r : Str) : Nat :=
    let one := (let n := rawBodyLen q r; if n == 0 then 0 else 1 + n)
    let tri := match r with
      | a :: b :: r' =>
        if a == q && b == q then (let n := rawTripleBodyLen q r'; if n == 0 then 0 else 3 + n) else 0
      | _ => 0
    Nat.max one tri
  match s with
  | '"' :: r => plain '"' r
  | '\'' :: r => plain '\'' r
  | c :: q :: r =>
    if (c == 'r' || c == 'R') && (q == '"' || q == '\'') then
      (let n := raw q r; if n == 0 then 0 else 1 + n)
    else 0
  | _ => 0

/-- `BYTES : ('b' | 'B') STRING` -/
def bytesLen : Str → Nat
  | c :: r => if c == 'b' || c == 'B' then (let n := stringLen r; if n == 0 then 0 else 1 + n) else 0
  | [] => 0

def identLen : Str → Nat
  | c :: r => if isIdStart c then 1 + spanLen isIdCont r else 0
  | [] => 0

def escIdentLen : Str → Nat
  | '`' :: r =>
    let p := fun c => isLetter c || isDigit c || c == '_' || c == '.' || c == '-' || c == '/' || c == ' '
    let n := spanLen p r
    if n == 0 then 0 else (match r.drop n with | '`' :: _ => n + 2 | _ => 0)
  | _ => 0

def commentLen : Str → Nat
  | '/' :: '/' :: r => 2 + spanLen (fun c => c != '\n') r
  | _ => 0

/-- the fixed-text tokens in grammar order -/
def fixedToks : List String :=
  ["==", "!=", "in", "<", "<=", ">=", ">", "&&", "||", "[", "]", "{", "}", "(", ")", ".", ",", "-",
   "!", "?", ":", "+", "*", "/", "%", "true", "false", "null"]

def fixedLen (s : Str) : Nat × String :=
  fixedToks.foldl (fun best t =>
    let tl := t.toList
    if tl.length > best.1 && (s.take tl.length) == tl then (tl.length, t) else best) (0, "")

inductive Cls where
  | fixed | ws | comment | float | int | uint | str | bytes | ident | escIdent
deriving Repr, DecidableEq

/-- candidates in grammar order; the first of maximal length wins -/
def bestMatch (s : Str) : Option (Cls × Nat × String) :=
  let (fl, ft) := fixedLen s
  let cands : List (Cls × Nat) :=
    [(.fixed, fl), (.ws, spanLen isWs s), (.comment, commentLen s), (.float, floatLen s),
     (.int, intLen s), (.uint, uintLen s), (.str, stringLen s), (.bytes, bytesLen s),
     (.ident, identLen s), (.escIdent, escIdentLen s)]
  let best := cands.foldl (fun b c => if c.2 > b.2 then c else b) (.fixed, 0)
  if best.2 == 0 then none else some (best.1, best.2, ft)

/-- tokens (hidden ones dropped) and the number of unrecognised characters -/
def lexAux : (fuel : Nat) → Str → List Tok → Nat → List Tok × Nat
  | 0, _, acc, errs => (acc.reverse, errs)
  | _, [], acc, errs => (acc.reverse, errs)
  | fuel + 1, s, acc, errs =>
    match bestMatch s with
    | none => lexAux fuel (s.drop 1) acc (errs + 1)
    | some (cls, n, ft) =>
      let text := s.take n
      let rest := s.drop n
      match cls with
      | .ws => lexAux fuel rest acc errs
      | .comment => lexAux fuel rest acc errs
      | .fixed => lexAux fuel rest (.sym ft :: acc) errs
      | .float => lexAux fuel rest (.float text :: acc) errs
      | .int => lexAux fuel rest (.int text :: acc) errs
      | .uint => lexAux fuel rest (.uint text :: acc) errs
      | .str => lexAux fuel rest (.str text :: acc) errs
      | .bytes => lexAux fuel rest (.bytes text :: acc) errs
      | .ident => lexAux fuel rest (.ident text :: acc) errs
      | .escIdent => lexAux fuel rest (.escIdent text :: acc) errs

def lex (s : Str) : List Tok × Nat := lexAux (s.length + 1) s [] 0

end Lexer
end Cel
