import CelModel.Ast
/-!
# Macro expansion (`antlr/src/macros.rs`)

Each expander builds the comprehension its macro denotes around the receiver and argument
expressions, which are embedded unchanged.
-/
namespace Cel
namespace Macros

def accu : String := "@result"
def accuIdent : Expr := .ident accu

/-- `r.all(v, p)` -/
def expandAll (v : String) (range p : Expr) : Expr :=
  .comp v range accu (.lit (.bool true))
    (.call "@not_strictly_false" [accuIdent])
    (.call "_&&_" [accuIdent, p])
    accuIdent

/-- `r.exists(v, p)` -/
def expandExists (v : String) (range p : Expr) : Expr :=
  .comp v range accu (.lit (.bool false))
    (.call "@not_strictly_false" [.call "!_" [accuIdent]])
    (.call "_||_" [accuIdent, p])
    accuIdent

/-- `r.exists_one(v, p)` / `r.existsOne(v, p)` -/
def expandExistsOne (v : String) (range p : Expr) : Expr :=
  .comp v range accu (.lit (.int 0))
    (.lit (.bool true))
    (.call "_?_:_" [p, .call "_+_" [accuIdent, .lit (.int 1)], accuIdent])
    (.call "_==_" [accuIdent, .lit (.int 1)])

/-- `r.map(v, f)` -/
def expandMap (v : String) (range f : Expr) : Expr :=
  .comp v range accu (.list [])
    (.lit (.bool true))
    (.call "_+_" [accuIdent, .list [f]])
    accuIdent

/-- `r.map(v, p, f)` -/
def expandMapFilter (v : String) (range p f : Expr) : Expr :=
  .comp v range accu (.list [])
    (.lit (.bool true))
    (.call "_?_:_" [p, .call "_+_" [accuIdent, .list [f]], accuIdent])
    accuIdent

/-- `r.filter(v, p)` -/
def expandFilter (v : String) (range p : Expr) : Expr :=
  .comp v range accu (.list [])
    (.lit (.bool true))
    (.call "_?_:_" [p, .call "_+_" [accuIdent, .list [.ident v]], accuIdent])
    accuIdent

/-- `has(e.f)` -/
def expandHas : Expr → Option Expr
  | .select e f _ => some (.select e f true)
  | _ => none

inductive ExpandResult where
  | notMacro
  | error            -- "argument must be a simple name" / "invalid argument to has() macro"
  | ok (e : Expr)
deriving Repr, Inhabited

/-- `find_expander` + the expander: by name, arity and receiver presence -/
def expand (f : String) (target : Option Expr) (args : List Expr) : ExpandResult :=
  match target, args with
  | none, [a] =>
    if f == "has" then (match expandHas a with | some e => .ok e | none => .error) else .notMacro
  | some t, [v, p] =>
    if f == "all" || f == "exists" || f == "exists_one" || f == "existsOne" || f == "map"
        || f == "filter" then
      match v with
      | .ident n =>
        if f == "all" then .ok (expandAll n t p)
        else if f == "exists" then .ok (expandExists n t p)
        else if f == "exists_one" || f == "existsOne" then .ok (expandExistsOne n t p)
        else if f == "map" then .ok (expandMap n t p)
        else .ok (expandFilter n t p)
      | _ => .error
    else .notMacro
  | some t, [v, p, fn] =>
    if f == "map" then
      match v with
      | .ident n => .ok (expandMapFilter n t p fn)
      | _ => .error
    else .notMacro
  | _, _ => .notMacro

end Macros
end Cel
