import CelModel.Lexer
import CelModel.StrOps
/-!
# Literal decoding (`antlr/src/parse.rs`, `visit_String` / `visit_Bytes` in `parser.rs`)

A character-for-character port of `parse_string` (quote-toggling state machine included — see
DESIGN.md D5 for the behaviour it causes on `\'` inside a double-quoted literal and on raw
literals; triple-quoted literals are delimited once, as repaired by the D5c fix) and of
`parse_bytes`.
-/
namespace Cel
namespace StrLit

def hexVal (c : Char) : Nat :=
  if '0' ≤ c && c ≤ '9' then c.toNat - 48
  else if 'a' ≤ c && c ≤ 'f' then c.toNat - 87
  else if 'A' ≤ c && c ≤ 'F' then c.toNat - 55 else 0

/-- `u32::from_str_radix(s, radix)` for the digit strings the lexer lets through; `none` on an
empty string or a non-digit -/
def parseRadix (radix : Nat) (s : Str) : Option Nat :=
  if s.isEmpty then none
  else s.foldl (fun acc c =>
    match acc with
    | none => none
    | some n =>
      let ok := if radix == 16 then Lexer.isHex c else ('0' ≤ c && c ≤ '7')
      if ok then some (n * radix + hexVal c) else none) (some 0)

/-- `char::from_u32` -/
def charOfNat? (n : Nat) : Option Char :=
  if h : n.isValidChar then some ⟨n.toUInt32, by
    have := h
    simp only [Nat.isValidChar] at this
    rcases this with h1 | ⟨h2, h3⟩
    · left; simp [Nat.toUInt32, UInt32.toNat_ofNat']; omega
    · right; constructor <;> simp [Nat.toUInt32, UInt32.toNat_ofNat'] <;> omega⟩ else none

/-- `parse_unicode_hex(length, chars)`: the scalar value and the rest -/
def unicodeHex (length : Nat) (s : Str) : Option (Char × Str) :=
  match parseRadix 16 (s.take length) with
  | none => none
  | some n => (charOfNat? n).map (fun c => (c, s.drop length))

/-- `parse_unicode_oct(first, chars)` -/
def unicodeOct (first : Char) (s : Str) : Option (Char × Str) :=
  match parseRadix 8 (first :: s.take 2) with
  | none => none
  | some n => if n ≤ 255 then (charOfNat? n).map (fun c => (c, s.drop 2)) else none

/-- `parse_quoted_string` after the first (opening) quote has been consumed; with `lit`
(`literal_quotes`, the body of a triple-quoted literal) quote characters never toggle the state
and no closing quote is expected -/
def quoted (lit : Bool) : (fuel : Nat) → Str → (inSingle inDouble : Bool) → Str → Option Str
  | 0, _, _, _, _ => none
  | _, [], inS, inD, acc => if !lit && (inS || inD) then none else some acc.reverse
  | fuel + 1, c :: rest, inS, inD, acc =>
    let inQ := inS || inD
    if c == '\\' && inQ then
      match rest with
      | [] => none
      | c2 :: r2 =>
        let simple (v : Char) (pushEsc : Bool) : Option Str :=
          quoted lit fuel r2 inS inD (v :: (if pushEsc then '\\' :: acc else acc))
        if c2 == 'a' then simple (Char.ofNat 7) false
        else if c2 == 'b' then simple (Char.ofNat 8) false
        else if c2 == 'v' then simple (Char.ofNat 11) false
        else if c2 == 'f' then simple (Char.ofNat 12) false
        else if c2 == 'n' then simple '\n' false
        else if c2 == 'r' then simple '\r' false
        else if c2 == 't' then simple '\t' false
        else if c2 == '\\' || c2 == '?' || c2 == '`' then simple c2 false
        else if c2 == '\'' then simple c2 inD
        else if c2 == '"' then simple c2 inS
        else if c2 == 'x' || c2 == 'X' || c2 == 'u' || c2 == 'U' then
          let len := if c2 == 'u' then 4 else if c2 == 'U' then 8 else 2
          match unicodeHex len r2 with
          | none => none
          | some (v, r3) => quoted lit fuel r3 inS inD (v :: acc)
        else if '0' ≤ c2 && c2 ≤ '3' then
          match unicodeOct c2 r2 with
          | none => none
          | some (v, r3) => quoted lit fuel r3 inS inD (v :: acc)
        else none
    else if c == '\'' then
      if inD || lit then quoted lit fuel rest inS inD (c :: acc) else quoted lit fuel rest (!inS) inD acc
    else if c == '"' then
      if inS || lit then quoted lit fuel rest inS inD (c :: acc) else quoted lit fuel rest inS (!inD) acc
    else if !inQ then none
    else quoted lit fuel rest inS inD (c :: acc)

/-- `parse_raw_string` after the `r`/`R` has been consumed -/
def raw : (fuel : Nat) → Str → (inSingle inDouble : Bool) → Str → Option Str
  | 0, _, _, _, _ => none
  | _, [], _, _, acc => some acc.reverse
  | fuel + 1, c :: rest, inS, inD, acc =>
    let inQ := inS || inD
    if c == '\\' && inQ then
      match rest with
      | [] => raw fuel [] inS inD (c :: acc)
      | c2 :: r2 =>
        let keep := if c2 == '"' then inS else if c2 == '\'' then inD else true
        raw fuel r2 inS inD (c2 :: (if keep then c :: acc else acc))
    else if c == '\'' then
      if inD then raw fuel rest inS inD (c :: acc) else raw fuel rest (!inS) inD acc
    else if c == '"' then
      if inS then raw fuel rest inS inD (c :: acc) else raw fuel rest inS (!inD) acc
    else if !inQ then none
    else raw fuel rest inS inD (c :: acc)

/-- the text is delimited by three `q` on either side (`len >= 6 && starts_with && ends_with`) -/
def isTriple (q : Char) (t : Str) : Bool :=
  t.length ≥ 6 && t.take 3 == [q, q, q] && t.drop (t.length - 3) == [q, q, q]

/-- `parse_string` on the text of a STRING token: a triple-quoted literal has its delimiters
stripped once and its body decoded with quotes taken literally (verbatim when raw); anything
else goes through the quote-toggling state machines -/
def parseString (s : Str) : Option Str :=
  let (isRaw, t) : Bool × Str := match s with
    | c :: r => if c == 'r' || c == 'R' then (true, r) else (false, s)
    | [] => (false, s)
  let body := (t.drop 3).take (t.length - 6)
  if isTriple '\'' t then
    (if isRaw then some body else quoted true (body.length + 1) body true false [])
  else if isTriple '"' t then
    (if isRaw then some body else quoted true (body.length + 1) body false true [])
  else
    match s with
    | c :: rest =>
      if c == 'r' || c == 'R' then raw (rest.length + 1) rest false false []
      else if c == '\'' then quoted false (rest.length + 1) rest true false []
      else if c == '"' then quoted false (rest.length + 1) rest false true []
      else none
    | [] => none

/-- `parse_bytes` on the body of a bytes literal -/
def bytesBody : (fuel : Nat) → Str → List UInt8 → Option (List UInt8)
  | 0, _, _ => none
  | _, [], acc => some acc.reverse
  | fuel + 1, c :: rest, acc =>
    if c == '\\' then
      match rest with
      | [] => none
      | c2 :: r2 =>
        let one (b : Nat) : Option (List UInt8) := bytesBody fuel r2 (b.toUInt8 :: acc)
        if c2 == 'a' then one 7 else if c2 == 'b' then one 8 else if c2 == 'v' then one 11
        else if c2 == 'f' then one 12 else if c2 == 'n' then one 10 else if c2 == 'r' then one 13
        else if c2 == 't' then one 9
        else if c2 == '\\' || c2 == '?' || c2 == '\'' || c2 == '"' || c2 == '`' then one c2.toNat
        else if c2 == 'x' || c2 == 'X' then
          match r2 with
          | h1 :: h2 :: r3 =>
            (match parseRadix 16 [h1, h2] with
             | some n => bytesBody fuel r3 (n.toUInt8 :: acc)
             | none => none)
          | _ => none
        else if '0' ≤ c2 && c2 ≤ '3' then
          match r2 with
          | o1 :: o2 :: r3 =>
            (match parseRadix 8 [c2, o1, o2] with
             | some n => if n ≤ 255 then bytesBody fuel r3 (n.toUInt8 :: acc) else none
             | none => none)
          | _ => none
        else none
    else bytesBody fuel rest ((utf8Encode c).reverse ++ acc)

/-- `visit_Bytes`: strip `b`, an optional raw marker and the single or triple quotes -/
def parseBytes (s : Str) : Option (List UInt8) :=
  let text := s.drop 1
  let (isRaw, text) := match text with
    | c :: r => if c == 'r' || c == 'R' then (true, r) else (false, text)
    | [] => (false, text)
  let q : Nat :=
    if text.length ≥ 6 && (text.take 3 == ['"', '"', '"'] || text.take 3 == ['\'', '\'', '\'']) then 3 else 1
  let body := (text.drop q).take (text.length - 2 * q)
  if isRaw then some (strToBytes body) else bytesBody (body.length + 1) body []

end StrLit
end Cel
