/-!
# Reference-counted buffers: `Arc::make_mut` / `Arc::get_mut` in `impl Add for Value`
(`objects.rs`, list and string concatenation)

A heap of cells (payload + strong count) and a multiset of live handles.  `concat h₁ h₂`
consumes both handles and yields the handle of `payload h₁ ++ payload h₂`, appending in place
when `h₁` is the only reference to its cell and copying otherwise — exactly the decision
`Arc::make_mut` takes.  What Rust's ownership discipline guarantees (and the model assumes as
its invariant) is that a cell's count equals the number of live handles to it.

Also: a system of threads that share read-only data and write only their own state.
-/
namespace Cel
namespace ArcHeap

abbrev Addr := Nat

structure Cell where
  payload : List Nat
  rc : Nat
deriving Repr, DecidableEq, Inhabited

structure State where
  heap : List (Addr × Cell)     -- association list, unique addresses
  live : List Addr              -- one entry per live handle (a multiset)
  next : Addr                   -- fresh address supply
deriving Repr, Inhabited

def lookup : List (Addr × Cell) → Addr → Option Cell
  | [], _ => none
  | (a, c) :: rest, x => if a = x then some c else lookup rest x

def update : List (Addr × Cell) → Addr → Cell → List (Addr × Cell)
  | [], a, c => [(a, c)]
  | (a', c') :: rest, a, c => if a' = a then (a, c) :: rest else (a', c') :: update rest a c

/-- what a holder of handle `h` observes -/
def read (s : State) (h : Addr) : Option (List Nat) := (lookup s.heap h).map (·.payload)

def rcOf (s : State) (h : Addr) : Nat := ((lookup s.heap h).map (·.rc)).getD 0

/-- remove one occurrence -/
def removeOne : List Addr → Addr → List Addr
  | [], _ => []
  | a :: rest, x => if a = x then rest else a :: removeOne rest x

/-- `Arc::new(payload)` -/
def alloc (s : State) (p : List Nat) : State × Addr :=
  ({ heap := update s.heap s.next { payload := p, rc := 1 }, live := s.next :: s.live, next := s.next + 1 }, s.next)

/-- `Arc::clone` -/
def clone (s : State) (h : Addr) : State :=
  match lookup s.heap h with
  | some c => { s with heap := update s.heap h { c with rc := c.rc + 1 }, live := h :: s.live }
  | none => s

/-- dropping a handle -/
def drop (s : State) (h : Addr) : State :=
  match lookup s.heap h with
  | some c => { s with heap := update s.heap h { c with rc := c.rc - 1 }, live := removeOne s.live h }
  | none => s

/-- `Value::List(l) + Value::List(r)`: consumes both handles; returns the result handle -/
def concat (s : State) (h1 h2 : Addr) : State × Addr :=
  match lookup s.heap h1, lookup s.heap h2 with
  | some c1, some c2 =>
    if c1.rc = 1 then
      -- unique: append in place; the result reuses the cell (handle moved, count unchanged)
      let s1 := { s with heap := update s.heap h1 { c1 with payload := c1.payload ++ c2.payload } }
      (drop s1 h2, h1)
    else
      -- shared: `make_mut` clones the data into a fresh cell and releases the old handle
      let s1 := drop s h1
      let (s2, r) := alloc s1 (c1.payload ++ c2.payload)
      (drop s2 h2, r)
  | _, _ => (s, h1)

/-- the ownership invariant: every cell's count is the number of live handles to it, and
addresses in use are below the fresh-address supply -/
def Inv (s : State) : Prop :=
  (∀ a c, lookup s.heap a = some c → c.rc = s.live.count a) ∧
  (∀ a, a ∈ s.live → (lookup s.heap a).isSome) ∧
  (∀ a c, lookup s.heap a = some c → a < s.next)

end ArcHeap

/-! ## threads sharing read-only data -/
namespace Threads

/-- `σ` is the shared, read-only part (programs, root context); `τ` a thread's own state
(inner scope, results so far) -/
structure System (σ τ : Type) where
  shared : σ
  locals : List τ

/-- one step of thread `i`: reads the shared part, writes only its own state -/
def stepThread (step : σ → τ → τ) (sys : System σ τ) (i : Nat) : System σ τ :=
  { sys with locals := sys.locals.modify i (step sys.shared) }

/-- a schedule is any sequence of thread indices -/
def run (step : σ → τ → τ) (sys : System σ τ) : List Nat → System σ τ
  | [] => sys
  | i :: rest => run step (stepThread step sys i) rest

def iterate (f : α → α) : Nat → α → α
  | 0, x => x
  | n + 1, x => iterate f n (f x)

end Threads
end Cel
