import CelModel.Value
/-!
# `PartialEq` and `PartialOrd` for `Value` (objects.rs:265-339), clause for clause
-/
namespace Cel

/-- lexicographic comparison of scalar-value lists = `str::cmp` (UTF-8 byte order coincides
with code-point order) -/
def cmpStr : Str → Str → Ordering
  | [], [] => .eq
  | [], _ :: _ => .lt
  | _ :: _, [] => .gt
  | a :: as, b :: bs => if a.toNat < b.toNat then .lt else if b.toNat < a.toNat then .gt else cmpStr as bs

def cmpBool : Bool → Bool → Ordering
  | false, true => .lt
  | true, false => .gt
  | _, _ => .eq

/-- int vs uint: `i64::try_into::<u64>()` then compare, a negative int is `Less` -/
def cmpIntUint (a b : Int) : Ordering := if a < 0 then .lt else compare a b
/-- uint vs int: a uint beyond `i64::MAX` is `Greater` -/
def cmpUintInt (a b : Int) : Ordering := if a > i64Max then .gt else compare a b

def Ordering.rev : Ordering → Ordering
  | .lt => .gt | .gt => .lt | .eq => .eq

/-- `impl PartialOrd for Value` -/
def Value.partialCmp : Value → Value → Option Ordering
  | .int a, .int b => some (compare a b)
  | .uint a, .uint b => some (compare a b)
  | .dbl a, .dbl b => F64.cmpDD (F64.decode a) (F64.decode b)
  | .str a, .str b => some (cmpStr a b)
  | .bool a, .bool b => some (cmpBool a b)
  | .null, .null => some .eq
  | .dur a, .dur b => some (compare a b)
  | .ts a _, .ts b _ => some (compare a b)
  | .int a, .uint b => some (cmpIntUint a b)
  | .int a, .dbl b => F64.cmpIntD a (F64.decode b)
  | .uint a, .int b => some (cmpUintInt a b)
  | .uint a, .dbl b => F64.cmpIntD a (F64.decode b)
  | .dbl a, .int b => (F64.cmpIntD b (F64.decode a)).map Ordering.rev
  | .dbl a, .uint b => (F64.cmpIntD b (F64.decode a)).map Ordering.rev
  | _, _ => none

mutual
/-- `impl PartialEq for Value` -/
def Value.eq : Value → Value → Bool
  | .map a, .map b => a.length == b.length && eqEntries a b
  | .list a, .list b => eqList a b
  | .fn n1 r1, .fn n2 r2 => n1 == n2 && eqList r1 r2
  | .int a, .int b => a == b
  | .uint a, .uint b => a == b
  | .dbl a, .dbl b => F64.cmpDD (F64.decode a) (F64.decode b) == some .eq
  | .str a, .str b => a == b
  | .bytes a, .bytes b => a == b
  | .bool a, .bool b => a == b
  | .null, .null => true
  | .dur a, .dur b => a == b
  | .ts a _, .ts b _ => a == b
  | .int a, .uint b => a == b
  | .int a, .dbl b => F64.cmpIntD a (F64.decode b) == some .eq
  | .uint a, .int b => a == b
  | .uint a, .dbl b => F64.cmpIntD a (F64.decode b) == some .eq
  | .dbl a, .int b => F64.cmpIntD b (F64.decode a) == some .eq
  | .dbl a, .uint b => F64.cmpIntD b (F64.decode a) == some .eq
  | _, _ => false
/-- `Vec<Value> == Vec<Value>` -/
def eqList : List Value → List Value → Bool
  | [], [] => true
  | x :: xs, y :: ys => Value.eq x y && eqList xs ys
  | _, _ => false
/-- every entry of `a` is present in `b` under the same typed key with an equal value
(`HashMap == HashMap` once the lengths agree) -/
def eqEntries : List (Key × Value) → List (Key × Value) → Bool
  | [], _ => true
  | (k, v) :: rest, b =>
    (match MapV.find? b k with
     | some v' => Value.eq v v'
     | none => false) && eqEntries rest b
end

/-- `Vec::contains` with `Value::eq` -/
def listContains (xs : List Value) (x : Value) : Bool := xs.any (fun y => Value.eq y x)

end Cel
