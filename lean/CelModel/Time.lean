import CelModel.Value
/-!
# Durations and timestamps (`interpreter/src/duration.rs`, `functions.rs::time`, chrono)

chrono itself is third-party: its calendar and RFC 3339 behaviour is *modelled* here (proleptic
Gregorian day arithmetic after Hinnant) and validated against chrono by the correspondence.
-/
namespace Cel

/-! ## Durations -/
namespace Dur

/-- chrono `TimeDelta` range: ±`i64::MAX` milliseconds, in nanoseconds -/
def maxNs : Int := i64Max * 1000000
def inRange (ns : Int) : Bool := decide (-maxNs ≤ ns) && decide (ns ≤ maxNs)

def digitChar (d : Nat) : Char := Char.ofNat (48 + d)

/-- `format_float`: the `prec` low decimal digits of `v` as a fraction with trailing zeros
trimmed (and the point dropped when nothing remains); returns the text and `v / 10^prec` -/
def fmtFrac : (prec : Nat) → (v : Nat) → (print : Bool) → (acc : Str) → Str × Nat
  | 0, v, print, acc => (if print then '.' :: acc else acc, v)
  | prec + 1, v, print, acc =>
    let digit := v % 10
    let print := print || digit != 0
    fmtFrac prec (v / 10) print (if print then digitChar digit :: acc else acc)

/-- `format_duration` (a port of Go's `Duration.String`) on the magnitude `u` in nanoseconds -/
def formatMag (u : Nat) : Str :=
  if u < 1000000000 then
    if u == 0 then "0s".toList
    else if u < 1000 then natToDec u ++ "ns".toList
    else if u < 1000000 then
      let (f, w) := fmtFrac 3 u false []
      natToDec w ++ f ++ "µs".toList
    else
      let (f, w) := fmtFrac 6 u false []
      natToDec w ++ f ++ "ms".toList
  else
    let (f, secs) := fmtFrac 9 u false []
    let s := natToDec (secs % 60) ++ f ++ ['s']
    let mins := secs / 60
    if mins == 0 then s
    else
      let ms := natToDec (mins % 60) ++ ['m'] ++ s
      let hours := mins / 60
      if hours == 0 then ms else natToDec hours ++ ['h'] ++ ms

def format (ns : Int) : Str :=
  if ns < 0 then '-' :: formatMag ns.natAbs else formatMag ns.natAbs

/-! ### parsing -/
def isDigit (c : Char) : Bool := '0' ≤ c && c ≤ '9'
def takeDigits : Str → Str × Str
  | c :: cs => if isDigit c then let (a, b) := takeDigits cs; (c :: a, b) else ([], c :: cs)
  | [] => ([], [])
def digitsToNat (cs : Str) : Nat := cs.foldl (fun n c => n * 10 + (c.toNat - 48)) 0

/-- unit suffix → nanoseconds per unit and the remaining text -/
def takeUnit : Str → Option (Nat × Str)
  | 'n' :: 's' :: r => some (1, r)
  | 'u' :: 's' :: r => some (1000, r)
  | 'µ' :: 's' :: r => some (1000, r)
  | 'μ' :: 's' :: r => some (1000, r)
  | 'm' :: 's' :: r => some (1000000, r)
  | 's' :: r => some (1000000000, r)
  | 'm' :: r => some (60000000000, r)
  | 'h' :: r => some (3600000000000, r)
  | _ => none

/-- one `<decimal><unit>` term: its value in nanoseconds (fraction truncated toward zero) and
the rest of the text; `none` if the text does not start with a term -/
def takeTerm (s : Str) : Option (Nat × Str) :=
  let (ip, r1) := takeDigits s
  let (fp, r2) := match r1 with
    | '.' :: r => takeDigits r
    | r => ([], r)
  if ip.isEmpty && fp.isEmpty then none else
  match takeUnit r2 with
  | none => none
  | some (unit, rest) =>
    -- 18 fractional digits are far below the resolution of every unit; the rest is ignored
    let fp := fp.take 18
    some (digitsToNat ip * unit + digitsToNat fp * unit / 10 ^ fp.length, rest)

/-- one or more terms consuming the whole text, summed exactly -/
def parseTerms : (fuel : Nat) → Str → Nat → Option Nat
  | 0, _, _ => none
  | fuel + 1, s, acc =>
    match takeTerm s with
    | none => none
    | some (v, rest) => if rest.isEmpty then some (acc + v) else parseTerms fuel rest (acc + v)

/-- `duration(string)`: optional `-`, then `0` or a term sequence; the value must fit in signed
64-bit nanoseconds -/
def parse (s : Str) : Option Int :=
  let (neg, body) := match s with
    | '-' :: r => (true, r)
    | r => (false, r)
  if body == ['0'] then some 0 else
  match parseTerms (body.length + 1) body 0 with
  | none => none
  | some mag =>
    let v : Int := if neg then -(mag : Int) else mag
    if inI64 v then some v else none

end Dur

/-! ## Calendar -/
namespace Time

def nsPerSec : Int := 1000000000
def nsPerDay : Int := 86400 * nsPerSec

/-- year-of-era, month (1-12) and day (1-31) of a day-of-era in 0..146096
(era = 400 years starting on 0000-03-01) -/
def civilOfDoe (doe : Nat) : Nat × Nat × Nat :=
  let yoe := (doe - doe / 1460 + doe / 36524 - doe / 146096) / 365
  let doy := doe - (365 * yoe + yoe / 4 - yoe / 100)
  let mp := (5 * doy + 2) / 153
  let d := doy - (153 * mp + 2) / 5 + 1
  let m := if mp < 10 then mp + 3 else mp - 9
  (yoe, m, d)

/-- day-of-era of year-of-era `yoe` (March-based), month and day -/
def doeOfCivil (yoe m d : Nat) : Nat :=
  let mp := if m > 2 then m - 3 else m + 9
  let doy := (153 * mp + 2) / 5 + d - 1
  yoe * 365 + yoe / 4 - yoe / 100 + doy

/-- days since 1970-01-01 → (year, month, day) -/
def civilFromDays (z : Int) : Int × Nat × Nat :=
  let z := z + 719468
  let era := z / 146097
  let doe := (z % 146097).toNat
  let (yoe, m, d) := civilOfDoe doe
  let y : Int := (yoe : Int) + era * 400
  (if m ≤ 2 then y + 1 else y, m, d)

def daysFromCivil (y : Int) (m d : Nat) : Int :=
  let y := if m ≤ 2 then y - 1 else y
  let era := y / 400
  let yoe := (y % 400).toNat
  era * 146097 + (doeOfCivil yoe m d : Int) - 719468

def isLeap (y : Int) : Bool := (y % 4 == 0 && y % 100 != 0) || y % 400 == 0
def daysInMonth (y : Int) (m : Nat) : Nat :=
  match m with
  | 2 => if isLeap y then 29 else 28
  | 4 => 30 | 6 => 30 | 9 => 30 | 11 => 30
  | _ => 31

/-- broken-down local time of a timestamp at its own offset -/
structure Fields where
  year : Int
  month : Nat    -- 1..12
  day : Nat      -- 1..31
  hour : Nat
  minute : Nat
  second : Nat
  nanos : Nat
  days : Int     -- local days since 1970-01-01
deriving Repr, Inhabited

def fields (utcNs offset : Int) : Fields :=
  let localNs := utcNs + offset * nsPerSec
  let days := localNs / nsPerDay
  let nod := (localNs % nsPerDay).toNat
  let sod := nod / 1000000000
  let (y, m, d) := civilFromDays days
  { year := y, month := m, day := d, hour := sod / 3600, minute := sod / 60 % 60,
    second := sod % 60, nanos := nod % 1000000000, days := days }

inductive Accessor where
  | fullYear | month | dayOfYear | dayOfMonth | date | dayOfWeek | hours | minutes | seconds
  | milliseconds
deriving Repr, DecidableEq, Inhabited

def access (a : Accessor) (utcNs offset : Int) : Int :=
  let f := fields utcNs offset
  match a with
  | .fullYear => f.year
  | .month => (f.month : Int) - 1
  | .dayOfYear => f.days - daysFromCivil f.year 1 1
  | .dayOfMonth => (f.day : Int) - 1
  | .date => f.day
  | .dayOfWeek => (f.days + 4) % 7
  | .hours => f.hour
  | .minutes => f.minute
  | .seconds => f.second
  | .milliseconds => f.nanos / 1000000

/-! ### RFC 3339 text (chrono `to_rfc3339` / `parse_from_rfc3339`) -/

def pad (w : Nat) (n : Nat) : Str :=
  let s := natToDec n
  List.replicate (w - s.length) '0' ++ s

/-- chrono's `to_rfc3339()`: `YYYY-MM-DDTHH:MM:SS[.fff[fff[fff]]]±HH:MM` -/
def format (utcNs offset : Int) : Str :=
  let f := fields utcNs offset
  let year : Str :=
    if 0 ≤ f.year && f.year ≤ 9999 then pad 4 f.year.toNat
    else (if f.year < 0 then '-' else '+') :: pad 4 f.year.natAbs
  let frac : Str :=
    if f.nanos == 0 then []
    else if f.nanos % 1000000 == 0 then '.' :: pad 3 (f.nanos / 1000000)
    else if f.nanos % 1000 == 0 then '.' :: pad 6 (f.nanos / 1000)
    else '.' :: pad 9 f.nanos
  let osign := if offset < 0 then '-' else '+'
  let oabs := offset.natAbs
  -- chrono rounds the offset to minutes when printing `%:z`
  let omin := (oabs + 30) / 60
  year ++ ['-'] ++ pad 2 f.month ++ ['-'] ++ pad 2 f.day ++ ['T'] ++ pad 2 f.hour ++ [':']
    ++ pad 2 f.minute ++ [':'] ++ pad 2 f.second ++ frac ++ [osign] ++ pad 2 (omin / 60) ++ [':']
    ++ pad 2 (omin % 60)

def isDigit (c : Char) : Bool := '0' ≤ c && c ≤ '9'
def takeN (n : Nat) (s : Str) : Option (Nat × Str) :=
  let ds := s.take n
  if ds.length == n && ds.all isDigit then some (Dur.digitsToNat ds, s.drop n) else none

def expect (c : Char) : Str → Option Str
  | c' :: r => if c == c' then some r else none
  | [] => none

/-- the strict RFC 3339 profile that `timestamp()` is exercised with: 4-digit year, `T`,
optional fraction of 1+ digits (truncated to nanoseconds), `Z` or `±HH:MM`.  Leap seconds are
not modelled.  Returns (utcNs, offsetSecs). -/
def parse (s : Str) : Option (Int × Int) := do
  let (y, s) ← takeN 4 s
  let s ← expect '-' s
  let (mo, s) ← takeN 2 s
  let s ← expect '-' s
  let (d, s) ← takeN 2 s
  let s ← match s with
    | 'T' :: r => some r
    | 't' :: r => some r
    | ' ' :: r => some r
    | _ => none
  let (h, s) ← takeN 2 s
  let s ← expect ':' s
  let (mi, s) ← takeN 2 s
  let s ← expect ':' s
  let (sec, s) ← takeN 2 s
  let (nanos, s) ← match s with
    | '.' :: r =>
      let (ds, r') := Dur.takeDigits r
      if ds.isEmpty then none
      else
        let ds9 := (ds ++ List.replicate 9 '0').take 9
        some (Dur.digitsToNat ds9, r')
    | r => some (0, r)
  let (off, s) ← match s with
    | 'Z' :: r => some ((0 : Int), r)
    | 'z' :: r => some ((0 : Int), r)
    | c :: r =>
      if c == '+' || c == '-' then do
        let (oh, r) ← takeN 2 r
        let r ← expect ':' r
        let (om, r) ← takeN 2 r
        if om ≥ 60 then none else
        let v : Int := (oh * 3600 + om * 60 : Nat)
        if oh ≥ 24 then none else
        some ((if c == '-' then -v else v), r)
      else none
    | [] => none
  if !s.isEmpty then none else
  if mo < 1 || mo > 12 || d < 1 || d > daysInMonth y mo || h > 23 || mi > 59 || sec > 59 then none
  else
    let days := daysFromCivil y mo d
    let localNs := days * nsPerDay + ((h * 3600 + mi * 60 + sec : Nat) : Int) * nsPerSec + nanos
    some (localNs - off * nsPerSec, off)

/-- chrono `NaiveDateTime` range in UTC nanoseconds: years −262143 … 262142 -/
def minUtcNs : Int := daysFromCivil (-262143) 1 1 * nsPerDay
def maxUtcNs : Int := (daysFromCivil 262142 12 31 + 1) * nsPerDay - 1
def inRange (utcNs : Int) : Bool := decide (minUtcNs ≤ utcNs) && decide (utcNs ≤ maxUtcNs)

end Time
end Cel
