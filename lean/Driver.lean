import CelModel.Wire
open Cel Wire

partial def loop (hin hout : IO.FS.Stream) : IO Unit := do
  let line ← hin.getLine
  if line.isEmpty then return ()
  match parseLine line with
  | .atom id :: .atom kind :: payload =>
    hout.putStrLn (id ++ " " ++ answer kind payload)
  | _ => hout.putStrLn "? (bad-line)"
  hout.flush
  loop hin hout

def main : IO Unit := do
  loop (← IO.getStdin) (← IO.getStdout)
