#!/usr/bin/env python3
"""tools_harmless.py <dir-with-patch.diff+meta.json> <id> — no-false-alarm test: a behaviour-preserving
rewrite of /repo is applied (undone straight afterwards), the pinned suite is run in a scratch worktree,
and EVERY check's quick command must stay silent.  Files the result under /verif/seeded/<id>/."""
import json, os, re, shutil, subprocess, sys
ROOT = os.path.dirname(os.path.abspath(__file__))
REPO = os.environ.get("CEL_REPO", "/repo")   # a lane may point the tools at its own worktree of /repo
def sh(cmd):
    return subprocess.run(cmd, shell=True, stdout=subprocess.PIPE, stderr=subprocess.STDOUT, text=True)
def main():
    d, sid = sys.argv[1], sys.argv[2]
    patch = os.path.join(d, "patch.diff")
    r = sh(f"cd {ROOT} && python3 tools_seed.py {patch} C01 --all")
    res = {}
    for line in r.stdout.split("\n"):
        m = re.match(r"(C\d+) exit (\d+) (.*)", line)
        if m:
            res[m.group(1)] = "silent" if m.group(2) == "0" else ("VIOLATION" if m.group(2) == "1" else f"check error (exit {m.group(2)})")
    print(sid, res)
    if not res:
        print(r.stdout[-2000:])
        return 1
    dest = f"{ROOT}/seeded/{sid}"
    os.makedirs(dest, exist_ok=True)
    shutil.copy(patch, dest + "/patch.diff")
    meta = json.load(open(os.path.join(d, "meta.json")))
    meta["property"] = None
    meta["kind"] = "harmless: behaviour-preserving rewrite; every check must stay silent"
    meta["checks"] = res
    meta["what_i_ran"] = f"git -C {REPO} apply patch.diff; ./check <id> --tier quick for all 20 ids; git -C {REPO} checkout -- ."
    meta["repo_head"] = sh(f"git -C {REPO} rev-parse --short HEAD").stdout.strip()
    json.dump(meta, open(dest + "/meta.json", "w"), indent=1, ensure_ascii=False)
    return 0 if all(v == "silent" for v in res.values()) else 1
if __name__ == "__main__":
    sys.exit(main())
