#!/bin/bash
# tools_lane.sh <N> — (re)creates a parallel lane: a copy of /verif (committed state + Lean build
# output) and a worktree of /repo's HEAD under /root/lanes/<N>, so that seeded changes can be
# checked there while /repo and /verif are used for something else.  Usage afterwards:
#   CEL_LANE=<N> CEL_REPO=/root/lanes/<N>/repo python3 /root/lanes/<N>/verif/tools_confirm.py ...
set -e
N=$1
L=/root/lanes/$N
git -C /repo worktree remove --force $L/repo 2>/dev/null || true
rm -rf $L/verif
mkdir -p $L
git -C /repo worktree add --detach $L/repo HEAD >/dev/null
cp /repo/Cargo.lock $L/repo/Cargo.lock   # git-ignored, so not part of the worktree
rsync -a --exclude harness/target --exclude replays --exclude .git /verif/ $L/verif/
sed -i "s|/repo/|$L/repo/|g" $L/verif/harness/Cargo.toml
mkdir -p $L/verif/replays
echo "lane $N ready at $L (repo $(git -C $L/repo rev-parse --short HEAD))"
