#!/usr/bin/env python3
"""tools_confirm.py <seed-dir> <seeded-id> <Cxx> [--checks C02,C15 | --all]

Independently confirms a seeded change produced by a sub-agent and, if it holds up, files it under
/verif/seeded/<seeded-id>/ and records which checks catch it.

<seed-dir> holds patch.diff, demo.rs, meta.json.  Steps (all in a scratch worktree under /tmp,
never in /repo, removed afterwards):
  1. the patch applies to /repo's HEAD;
  2. the pinned test suite (67 tests) passes with the patch;
  3. the demonstration passes without the patch and fails with it;
then `tools_seed.py` runs the requested checks against the patch applied to /repo (undone straight
afterwards).
"""
import json, os, shutil, subprocess, sys, re

ROOT = os.path.dirname(os.path.abspath(__file__))
REPO = os.environ.get("CEL_REPO", "/repo")   # a lane may point the tools at its own worktree of /repo
LANE = os.environ.get("CEL_LANE", "")          # parallel lanes use their own scratch directories
WT = "/tmp/confirm-wt" + LANE
TARGET = "/tmp/confirm-target" + LANE
DEMO = "/tmp/confirm-demo" + LANE
ENV = dict(os.environ, CARGO_NET_OFFLINE="true", CARGO_TARGET_DIR=TARGET)


def sh(cmd, **kw):
    return subprocess.run(cmd, shell=True, stdout=subprocess.PIPE, stderr=subprocess.STDOUT, text=True, env=ENV, **kw)


def ensure_wt():
    head = sh(f"git -C {REPO} rev-parse HEAD").stdout.strip()
    if os.path.isdir(WT):
        cur = sh(f"git -C {WT} rev-parse HEAD").stdout.strip()
        sh(f"git -C {WT} checkout -q -- . ")
        if cur != head:
            sh(f"git -C {WT} checkout -q --detach {head}")
    else:
        r = sh(f"git -C {REPO} worktree add --detach {WT} {head}")
        assert r.returncode == 0, r.stdout
    os.makedirs(DEMO + "/src", exist_ok=True)
    open(DEMO + "/Cargo.toml", "w").write(f"""[package]
name = "demo"
version = "0.1.0"
edition = "2021"
[workspace]
[dependencies]
cel-interpreter = {{ path = "{WT}/interpreter", features = ["json", "chrono", "regex"] }}
cel-parser = {{ path = "{WT}/antlr" }}
chrono = "0.4"
serde = {{ version = "1", features = ["derive"] }}
serde_json = "1"
""")
    shutil.copy(REPO + "/Cargo.lock", DEMO + "/Cargo.lock")


def run_demo():
    r = sh(f"cd {DEMO} && timeout 900 cargo run --offline -q 2>&1; echo EXIT=$?")
    lines = r.stdout.rstrip().split("\n")
    rc = int(lines[-1].split("=")[1]) if lines and lines[-1].startswith("EXIT=") else 99
    return rc, "\n".join(lines[-16:-1])


def main():
    seed_dir, sid, pid = sys.argv[1], sys.argv[2], sys.argv[3]
    checks = [pid]
    for i, a in enumerate(sys.argv):
        if a == "--checks":
            checks = sys.argv[i + 1].split(",")
    allp = "--all" in sys.argv
    patch = os.path.join(seed_dir, "patch.diff")
    ensure_wt()
    ran = []
    r = sh(f"git -C {WT} apply --check {patch}")
    if r.returncode != 0:
        print("REJECT: patch does not apply to HEAD:", r.stdout)
        return 1
    shutil.copy(os.path.join(seed_dir, "demo.rs"), DEMO + "/src/main.rs")
    rc0, out0 = run_demo()
    ran.append(f"demo on unmodified HEAD: exit {rc0}")
    sh(f"git -C {WT} apply {patch}")
    t = sh(f"cd {WT} && cargo test --offline -p cel-interpreter -p cel-parser --lib 2>&1 | grep 'test result'")
    passed = sum(int(x) for x in re.findall(r"(\d+) passed", t.stdout))
    failed = sum(int(x) for x in re.findall(r"(\d+) failed", t.stdout))
    ran.append(f"pinned suite with patch: {passed} passed, {failed} failed")
    rc1, out1 = run_demo()
    ran.append(f"demo with patch: exit {rc1}")
    sh(f"git -C {WT} checkout -q -- .")
    print("\n".join(ran))
    ok = rc0 == 0 and rc1 != 0 and passed == 67 and failed == 0
    if not ok:
        print("REJECT: not confirmed\n--- demo without patch:\n" + out0 + "\n--- demo with patch:\n" + out1 + "\n--- tests:\n" + t.stdout)
        return 1
    # which checks catch it
    arg = "--all" if allp else ""
    caught, missed = [], []
    for p in checks if not allp else [None]:
        r = sh(f"cd {ROOT} && python3 tools_seed.py {patch} {p or pid} {arg}")
        for line in r.stdout.split("\n"):
            m = re.match(r"(C\d+) exit (\d+) (.*)", line)
            if m:
                (caught if m.group(2) == "1" else missed).append(m.group(1) + (" (no-failing-input-found)" if "no-failing-input-found" in m.group(3) else ""))
                if m.group(2) not in "01":
                    print("check error:", line)
    print("caught by:", caught, "missed by:", missed)
    dest = f"{ROOT}/seeded/{sid}"
    os.makedirs(dest, exist_ok=True)
    shutil.copy(patch, dest + "/patch.diff")
    shutil.copy(os.path.join(seed_dir, "demo.rs"), dest + "/demo.rs")
    meta = json.load(open(os.path.join(seed_dir, "meta.json")))
    meta.pop("verified", None)
    meta["property"] = pid
    meta["confirmed_by_me"] = {
        "how": "scratch worktree of /repo HEAD under /tmp (removed afterwards): patch applied; pinned suite run; demonstration built against the worktree and run with and without the patch",
        "ran": ran,
        "repo_head": sh(f"git -C {REPO} rev-parse --short HEAD").stdout.strip(),
    }
    old = {}
    if os.path.exists(dest + "/meta.json"):
        old = json.load(open(dest + "/meta.json")).get("checks", {})
    res = dict(old)
    for c in caught:
        res[c.split()[0]] = "VIOLATION" + (" no-failing-input-found" if "no-failing" in c else "")
    for c in missed:
        res[c.split()[0]] = "silent"
    meta["checks"] = res
    meta["what_i_ran"] = f"git -C {REPO} apply patch.diff; ./check <id> --tier quick for each id in checks; git -C {REPO} checkout -- ."
    json.dump(meta, open(dest + "/meta.json", "w"), indent=1, ensure_ascii=False)
    print("filed", dest)
    return 0


if __name__ == "__main__":
    sys.exit(main())
