#!/usr/bin/env python3
"""Regenerates the generated tables of DESIGN.md (between BEGIN/END markers) from
known_findings.jsonl and seeded/*/meta.json."""
import json, glob, os, re
ROOT = os.path.dirname(os.path.abspath(__file__))

def defects():
    rows = {}
    for l in open(f"{ROOT}/known_findings.jsonl"):
        d = json.loads(l)
        if d.get("status") != "fixed":
            continue
        k = (d["commit"], d["id"])
        r = rows.setdefault(k, {"props": [], "what": []})
        r["props"].append(d["property"])
        w = re.sub(r"^fixed: property=\S+ \S+ ", "", d["what"])
        r["what"].append(f'{d["property"]}: {w}')
    out = ["| defect | commit in /repo | properties | what failed (per property) |", "|---|---|---|---|"]
    for (commit, did), r in rows.items():
        what = "<br>".join(x.replace("|", "\\|") for x in r["what"])
        out.append(f'| {did} | `{commit}` | {", ".join(sorted(set(r["props"])))} | {what} |')
    return "\n".join(out)

def seeded():
    metas = {os.path.basename(os.path.dirname(m)): json.load(open(m)) for m in sorted(glob.glob(f"{ROOT}/seeded/*/meta.json"))}
    notes0 = json.load(open(f"{ROOT}/seeded/NOTES.json")) if os.path.exists(f"{ROOT}/seeded/NOTES.json") else {}
    agent = [k for k in metas if re.match(r"C\d+-[A-Z]$", k)]
    rev = [k for k in metas if k.startswith("revert-")]
    harm = [k for k in metas if k.startswith("harmless")]
    def caught(k):
        d = metas[k]
        own = d.get("property")
        return any(v.startswith("VIOLATION") for v in d.get("checks", {}).values()), str(d.get("checks", {}).get(own, "")).startswith("VIOLATION")
    n_any = sum(1 for k in agent if caught(k)[0]); n_own = sum(1 for k in agent if caught(k)[1])
    n_str = sum(1 for k in agent if "strengthened" in notes0.get(k, ""))
    summary = (f"Summary (generated): {len(agent)} property-breaking changes by sub-agents — {n_own} caught by the check of the property they target, "
               f"{n_any} caught by at least one check, {n_str} of them only after the check was strengthened (what was added is in the note column); "
               f"{len(rev)} reverse patches of fix: commits, {sum(1 for k in rev if caught(k)[0])} caught; "
               f"{len(harm)} behaviour-preserving rewrites, {sum(1 for k in harm if all(v == 'silent' for v in metas[k].get('checks', {}).values()))} with every check silent.\n")
    out = [summary, "| seeded change | property | what it breaks / what it needs | checks run → result | note |", "|---|---|---|---|---|"]
    notes = json.load(open(f"{ROOT}/seeded/NOTES.json")) if os.path.exists(f"{ROOT}/seeded/NOTES.json") else {}
    for m in sorted(glob.glob(f"{ROOT}/seeded/*/meta.json")):
        d = json.load(open(m))
        sid = os.path.basename(os.path.dirname(m))
        if sid in notes:
            d["note"] = notes[sid]
        checks = "; ".join(f"{k}: {v}" for k, v in sorted(d.get("checks", {}).items()))
        esc = lambda s: str(s).replace("|", "\\|").replace("\n", " ")
        out.append(f'| `{sid}` | {d.get("property")} | {esc(d.get("title",""))} — needs: {esc(d.get("needs_to_manifest",""))[:400]} | {checks} | {esc(d.get("note",""))} |')
    return "\n".join(out)

def main():
    p = f"{ROOT}/DESIGN.md"
    s = open(p).read()
    for name, gen in [("defects", defects), ("seeded", seeded)]:
        a, b = f"<!-- BEGIN:{name} -->", f"<!-- END:{name} -->"
        i, j = s.index(a) + len(a), s.index(b)
        s = s[:i] + "\n" + gen() + "\n" + s[j:]
    open(p, "w").write(s)

if __name__ == "__main__":
    main()
