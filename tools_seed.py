#!/usr/bin/env python3
"""tools_seed.py <patch.diff> <Cxx> [--all] — apply a seeded change to /repo, run the check(s),
undo it straight afterwards. Prints which checks raise VIOLATION."""
import subprocess, sys, json, os
ROOT = os.path.dirname(os.path.abspath(__file__))
REPO = os.environ.get("CEL_REPO", "/repo")   # a lane may point the tools at its own worktree of /repo
def sh(cmd, **kw):
    return subprocess.run(cmd, shell=True, stdout=subprocess.PIPE, stderr=subprocess.STDOUT, text=True, **kw)
def main():
    patch, pid = sys.argv[1], sys.argv[2]
    allp = "--all" in sys.argv
    st = sh(f"git -C {REPO} status --porcelain --untracked-files=no").stdout.strip()
    if st:
        print("refusing: /repo has uncommitted changes:\n" + st); return 2
    r = sh(f"git -C {REPO} apply --check {patch}")
    if r.returncode != 0:
        print("patch does not apply:", r.stdout); return 2
    sh(f"git -C {REPO} apply {patch}")
    try:
        ids = [pid]
        if allp:
            m = json.load(open(f"{ROOT}/MANIFEST.json"))
            ids = [c["property_id"] for c in m["checks"]]
        res = {}
        for p in ids:
            r = sh(f"cd {ROOT} && ./check {p} --tier quick")
            viol = [l for l in r.stdout.split("\n") if l.startswith("VIOLATION")]
            res[p] = (r.returncode, viol)
            print(p, "exit", r.returncode, viol[:1])
        return 0
    finally:
        sh(f"git -C {REPO} checkout -- .")
if __name__ == "__main__":
    sys.exit(main())
