#!/bin/sh
# MANIFEST.setup_cmd: build the Lean model, every property module and the driver, and the harness.
set -e
cd /verif/lean
lake build CelModel celmodel $(python3 -c "import json;print(' '.join(m for v in json.load(open('obligations.json')).values() for m in v['modules']))")
cd /verif/harness
CARGO_NET_OFFLINE=true CARGO_TARGET_DIR=/verif/harness/target cargo build --offline --quiet
