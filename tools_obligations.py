#!/usr/bin/env python3
"""Regenerates lean/obligations.json: property id -> module + names of every `theorem` in
lean/CelModel/Props/<id>.lean (the property theorems; helper lemmas live under Lemmas/)."""
import json, os, re

def strip_comments(src):
    out, depth, i = [], 0, 0
    while i < len(src):
        if src.startswith("/-", i):
            depth += 1; i += 2
        elif src.startswith("-/", i) and depth > 0:
            depth -= 1; i += 2
        elif depth > 0:
            if src[i] == "\n":
                out.append("\n")
            i += 1
        elif src.startswith("--", i):
            while i < len(src) and src[i] != "\n":
                i += 1
        else:
            out.append(src[i]); i += 1
    return "".join(out)
ROOT = os.path.dirname(os.path.abspath(__file__))
out = {}
d = os.path.join(ROOT, "lean", "CelModel", "Props")
for f in sorted(os.listdir(d)):
    m = re.match(r"(C\d+)(\w*)\.lean$", f)
    if not m:
        continue
    pid = m.group(1)
    src = strip_comments(open(os.path.join(d, f), encoding="utf-8").read())
    ns = re.search(r"^namespace\s+(\S+)", src, re.M).group(1)
    names = re.findall(r"^theorem\s+(\S+)", src, re.M)
    ent = out.setdefault(pid, {"modules": [], "theorems": []})
    ent["modules"].append("CelModel.Props." + f[:-5])
    ent["theorems"] += [f"{ns}.{n}" for n in names]
json.dump(out, open(os.path.join(ROOT, "lean", "obligations.json"), "w"), indent=1)
print({k: len(v["theorems"]) for k, v in out.items()})
