#!/usr/bin/env python3
"""Regenerates MANIFEST.json from the table below (kept in one place so it stays valid)."""
import json

CLAIMED = {
    "C04": {
        "text": "Proof about the parser model (grammar of CEL.g4 + the visitor of parser.rs): parse_render_full - for every well-formed source tree over the complete operator set (?:, ||, &&, the seven relations, + - * / %, prefix ! and -, index, select), of every size and depth, rendering it fully parenthesised and parsing the tokens yields exactly the tree it denotes (fuel of parseTop shown sufficient); balanced_tree_inorder - a chain of && / || of ANY length lists exactly the operands written, in source order; prefix_not_parity / prefix_neg_parity - an even run of prefix operators cancels and an odd run applies once, single '-' before a number is its sign; macro_expansion_preserves_arguments - every comprehension macro has the receiver as its range unchanged and every non-binder argument intact inside the step; has() only sets the test flag; other names are ordinary calls. The minimal-parenthesisation round trip is not proved (partial); it is checked by the correspondence. Tie to the code: all trees with <= 2 operators x 2 leaf kinds rendered fully and minimally parenthesised, chains to length 64, prefix runs to 6, random trees to depth 7, grammar corner texts and the other generators' programs, compiled by the real ANTLR parser: the AST is compared with the model's and with the tree that was rendered (modulo re-association of logical chains).",
        "technique": "Lean 4: fuel-indexed recursive-descent parser model, one-step unfolding lemmas + lifting lemmas per precedence level, induction on the source tree; strong induction for balanced trees + differential correspondence against the real parser",
        "design_ref": "DESIGN.md section 5, C04",
    },
    "C05": {
        "text": "Proof (partial for the scheduler): the evaluator model is a function of context, program and start state, so repeatability and context immutability of the model are definitional; the one impure-looking mechanism of the code - in-place append on uniquely owned Arc buffers in impl Add for Value - is modelled as a reference-counted heap state machine and proved unobservable: concat keeps the ownership invariant (count = number of live handles), its result reads as the concatenation, every handle that survives the operation reads exactly what it read before (the in-place path is only taken when no alias exists), for every reachable state by induction over operation histories; for threads that read shared data and write only their own state every schedule yields, per thread, what it would compute alone (interleaving_irrelevant). Assumed, not proved: that Rust's Arc counts equal the number of aliases, and that real scheduler interleavings are schedules of such atomic steps; these are observed: histories of 2-50 executions (concatenation- and macro-heavy, aliased values) with the context and all earlier results re-read after each execution and every execution repeated; the same histories under 4-16 threads x 20-200 rounds sharing &Program and a root &Context through inner scopes (separate celconc binary, which also carries the compile-time Send + Sync assertions - its failure to compile is reported as the violation).",
        "technique": "Lean 4 invariant proof over a reference-counted heap state machine and a schedule-independence theorem + history / multi-thread differential observation of the real code",
        "design_ref": "DESIGN.md section 5, C05",
    },
    "C16": {
        "text": "Proof over a model of chrono's observable calendar (proleptic Gregorian day arithmetic, RFC 3339 text): civil_roundtrip / days_roundtrip - every valid date maps to a day number that maps back and vice versa, for ALL years, from a kernel-evaluated table of one full 400-year era (146 097 days and 148 800 (year-of-era, month, day) triples, 32 chunks, `decide +kernel`, no native_decide) lifted by era arithmetic; accessors_recompose - the ten accessors are the fields of the local time at the timestamp's own offset and recompose to the instant exactly, with the documented 0-/1-based origins and Sunday = 0 (1970-01-01 is a Thursday); rfc3339_roundtrip - timestamp(string(t)) == t incl. the offset for years 0000-9999 (full statement: 0/3/6/9-digit fractions, sign, offset); equality and ordering compare instants regardless of offset; t + d - d == t and (t + d) - t == d whenever t + d is representable, otherwise an overflow error; no operator panics (the chrono panics were repaired: fix: commits D15, getDayOfYear). Tie to the code: first/last day of every month of boundary years x boundary times x offsets -12:00..+14:00 and random instants, as text and as host values, against the model and an independent calendar that counts days year by year.",
        "technique": "Lean 4: kernel-evaluated era table (decide +kernel, chunked) + era-shift lifting, digit/padding lemmas for the RFC 3339 round trip + differential correspondence with an independent calendar",
        "design_ref": "DESIGN.md section 5, C16",
    },
    "C17": {
        "text": "Proof over a model of the serde data model with one constructor per Serializer method (ser.rs: Serializer, KeySerializer, the Duration/Timestamp wrappers): scalars map to the corresponding CEL kind (signed -> int, unsigned -> uint, ...), sequences/tuples/tuple structs to lists of the converted elements in order (elementwise, first failing element aborts), structs and maps to maps keyed by field name / converted key (every field present, last wins), data-carrying variants to single-entry maps keyed by the variant name, KeySerializer accepts exactly int/uint/bool/char/string/unit-variant keys transparently through Some and newtype structs and any other key is an error; to_value_commutes_with_json: for JSON-representable data, converting and exporting to JSON equals serde_json::to_value (modelled) - incl. duplicate keys, char keys, non-finite floats. Conversion results are Except values: no panic outcome exists except for types that abuse the private marker names (excluded as adversarial, DESIGN.md). Tie to the code: a recursive Any type whose Serialize impl calls exactly the method each constructor names, depth <= 5, every integer width at its extremes, unsupported key kinds, wrappers at chrono's limits, plus JSON documents; compared: to_value, its JSON export and serde_json::to_value.",
        "technique": "Lean 4 mutual structural induction over the serde data model with an accumulator-relating invariant + differential correspondence through a method-exact Serialize implementation",
        "design_ref": "DESIGN.md section 5, C17",
    },
    "C18": {
        "text": "Proof: to_json_total - export succeeds exactly for values containing no function value and no duration beyond 64-bit nanoseconds, and is an error otherwise (never a panic); the document has the corresponding shape (lists -> arrays in order, maps -> objects keyed by the key's text, bytes -> standard base64 with padding of the right length over the standard alphabet, timestamps -> RFC 3339 text, durations -> nanosecond count, non-finite doubles -> null); json_roundtrip - for JSON-native values with distinct string keys, importing the exported document yields a value equal to the original under CEL equality (which identifies the uint serde_json hands back with the int written). Tie to the code: values of every kind to depth 5 incl. functions nested in collections, durations on both sides of 2^63 ns, NaN/inf, empty collections and maps whose keys collide as text; compared: canonical document or error, and the re-imported value.",
        "technique": "Lean 4 mutual structural induction over Value/Json (export/import accumulators related by an invariant) + differential correspondence",
        "design_ref": "DESIGN.md section 5, C18",
    },
    "C12": {
        "text": "Proof about the decoders (a character-for-character port of parse.rs and visit_Bytes): string_roundtrip_partial - in the one-line quoting styles every string, under every per-character choice among verbatim, the single-character escapes, \\xHH, \\XHH, \\OOO, \\uHHHH, \\UHHHHHHHH, decodes to exactly itself; bytes_roundtrip - the same for byte sequences in all four quoting styles, raw_bytes_verbatim for raw bytes literals; each escape form denotes the code point / byte written (escape_*_denotation); escapes naming surrogates or values beyond U+10FFFF are rejected; \\u/\\U are not bytes escapes; raw strings perform no escape processing except for the exactly characterised defect. Genuine defects of the quote-toggling decoder are not repaired (two are pinned by the repository's own unit tests) but recorded as known findings D5a/b/c, each with a kernel-checked *_counterexample theorem and a narrow matcher; D25 (raw triple-quoted literals reject U+0000/U+10FFFF) is a quirk of the third-party ANTLR runtime. Tie to the code: every \\x, \\X, \\OOO, single-character escape and a stratified \\u/\\U sample in every style, random strings/bytes in every applicable style with random spellings, malformed spellings - compiled and executed on both sides (the model uses its own lexer and parser) and compared with the text that was spelled.",
        "technique": "Lean 4 theorems about fuel-indexed decoder state machines (step lemma per spelling, induction over the spelled characters, kernel-decided counterexamples) + differential correspondence through the model's own lexer/parser + known-findings protocol",
        "design_ref": "DESIGN.md section 5, C12",
    },
    "C13": {
        "text": "Proof: decimal and hexadecimal int/uint literals within range decode to exactly the number written, signed ones down to the most negative int, and out-of-range literals are rejected (int_literal_*, hex_int_literal_exact, uint_literal_*); int()/uint() of a double return the truncation toward zero when it lies in the target range and an error otherwise incl. NaN and infinities - never a saturated value (int_of_double_spec, uint_of_double_spec, trunc_toward_zero); int<->uint conversions return the same number or an error; int -> double is exact up to 2^53; int(string(i)) = i, uint(string(u)) = u and string(bytes(s)) = s via a proved UTF-8 encode/decode round trip. Not proved, validated by correspondence only: that the model's shortest-round-trip printing and correctly rounded parsing of doubles are mutually inverse, and nearest-even rounding of int -> double beyond 2^53 (partial). Tie to the code: boundary sets and random 64-bit patterns in every literal form and through every conversion, as literals and as context variables, compiled and executed on both sides with the model's own lexer/parser, against i128 / IEEE expectations computed in the harness.",
        "technique": "Lean 4 theorems over Nat.toDigits folds, decoded doubles and a UTF-8 state machine + differential correspondence (model lexer/parser/F64 printing vs Rust std)",
        "design_ref": "DESIGN.md section 5, C13",
    },
    "C15": {
        "text": "Proof: parse_format_roundtrip - for every duration representable in signed 64-bit nanoseconds, duration(string(d)) == d (full statement, incl. i64::MIN); parse_accepts_only_full_term_sequences - whatever duration() accepts is, in its entirety, an optional sign followed by 0 or one or more decimal-number-plus-unit terms (an inductive grammar), so trailing text, a missing unit, inner signs, exponents, inf/nan, spaces are rejected; accepted values fit i64 nanoseconds; the value of a term is exact (fraction truncated toward zero); printing is Go's canonical form (0s, sign prefix, ns/us/ms below one second, trimmed fractions); + - are exact or an overflow error, comparison is comparison of nanosecond counts, no operator panics. The Rust parser and printer were repaired (fix: commits D16, D23) to have exactly this behaviour. Tie to the code: boundary and log-uniform durations as host values and as text, multi-term and fractional texts, a malformed-text catalogue, arithmetic/comparison on pairs incl. overflow, against the model and an independent Go-format / exact-rational reference in the harness.",
        "technique": "Lean 4: digit-fold lemmas over Nat.toDigits, inductive grammar soundness of the term parser, case analysis over the seven output shapes of the printer + differential correspondence with an independent reference",
        "design_ref": "DESIGN.md section 5, C15",
    },
    "C09": {
        "text": "Proof: Value.eq / Value.partialCmp mirror the Rust impls clause for clause; the Lean theorems show that among int, uint and double they coincide with the exact comparison of the numbers denoted (numKey: the value scaled by 2^1074 in Z plus +-inf; cmpIntD_matches_key is the numeric core for the truncate-then-fraction helper), NaN is unordered and unequal to everything, != negates ==, wherever < is defined exactly one of <,==,> holds and <=/>= are their disjunctions, a<b iff b>a, the order and equality are transitive across numeric kinds, strings compare by code point lexicographically, lists/maps are equal exactly element-/entry-wise, values of unrelated types are unequal and unordered, and max/min of mutually comparable values return a member bounding all others. Tie to the code: all ordered pairs of a ~100-value boundary set through Value::eq/partial_cmp directly, random pairs around 2^53/2^63/2^64, programs using the six relations, in, min, max; predicates on the implementation's own answers (symmetry, swap, trichotomy, exactness against an independent exact comparison, transitivity over all triples).",
        "technique": "Lean 4: exact rational embedding of doubles (integer arithmetic on decoded bit patterns), linear-order transfer through an order key + exhaustive boundary-pair/triple differential correspondence",
        "design_ref": "DESIGN.md section 5, C09",
    },
    "C19": {
        "text": "Proof: by induction over the expression tree with a panic-tolerant Hoare triple: if evaluation fails with undeclared n then n is among the reported variables or functions, for every tree whose @-identifiers are bound by an enclosing comprehension and every context (undeclared_is_reported); conversely, when the context defines every reported variable and every reported non-operator function and operator names are used with their own arity, evaluation never fails with an undeclared reference (declared_never_undeclared); @-accumulators are never reported, every reported variable is an identifier of the tree, every call name is reported, and the report takes no context. Tie to the code: generated programs with names in every syntactic position against contexts defining random subsets; reference sets and outcome compared with the model, and the four clauses evaluated directly on the implementation's report.",
        "technique": "Lean 4 induction on Expr with an error-predicate Hoare calculus (SatP) + differential correspondence on reference sets and undeclared errors",
        "design_ref": "DESIGN.md section 5, C19",
    },
    "C20": {
        "text": "Proof: receiver_style_equiv: for every registered function whose first parameter is the receiver extractor followed by positional parameters (every receiver-style built-in has that shape, builtin_receiver_shapes), x.f(args) and f(x, args) are the same computation - same outcome, log and step count - for all x and args; a host function's body is reached only with parameters of the declared shapes in declaration order (host_receives_declared_types), conversion never coerces (fromValue_exact), a missing argument / receiver or a mistyped argument is an execution error and the body is not invoked, registering a name replaces the previous function and leaves other names alone; panic-freedom is C02's eval_no_panic. Tie to the code: every receiver-style built-in x receivers and arguments of every kind in both styles (compared pairwise), every host signature of the catalogue (arity 0-9, all parameter types, This/Option/Arguments/Identifier/Expression, with and without FunctionContext) with 0..arity+2 arguments of matching and mismatching kinds in both styles, also overriding a built-in; what the closure saw is compared with the model and with a reference computed from the signature.",
        "technique": "Lean 4 equational theorem over argument extraction (index-shift lemma by induction on the signature) + catalogue-driven differential correspondence on closure-observed arguments",
        "design_ref": "DESIGN.md section 5, C20",
    },
    "C14": {
        "text": "Proof: Lean theorems: list indexing yields the element in range and null otherwise for every Int index; `k in m`, `m.contains(k)` and `m[k] != null` are all the same function of Map::get, hence agree on presence for every map with non-null values and every key (presence_agreement); int and uint twins of a key agree on presence (numeric_twin_keys_same); has(m.f) agrees with 'f' in m when no non-string key renders to f, and m.f = m['f'] when present; a map literal with pairwise distinct keys contains exactly the entries written (induction over the entry list); size is additive over + for lists and strings (UTF-8 length), concatenation is left operand followed by right; `x in l` iff some element equals x, and contains is the same test. Tie to the code: all maps with up to 3 keys over an 8-key mixed alphabet x 12 queries x both call routes, all lists up to length 4 x indices -2..len+1 and the i64 extremes, random strings/lists for the additive laws, against the model and a recomputation from the written container.",
        "technique": "Lean 4 theorems over association-list maps and lists (induction, insert/find lemmas) + exhaustive small-container differential correspondence",
        "design_ref": "DESIGN.md section 5, C14",
    },
    "C10": {
        "text": "Proof: for every range value, every body expression and every context, the comprehension each macro expands to (model of antlr/src/macros.rs) is observationally equal (same outcome, same host-call log from every state) to its defining fold: all = conjunction in order stopping at the first falsy element, exists = disjunction stopping at the first truthy one, exists_one = exactly one satisfying element (all visited), map / map-with-filter / filter = transformed / pre-filtered / satisfying elements in order; maps range over their keys; a non-iterable range is an error; an error on a reached element aborts with that error and elements after the deciding one contribute nothing (all_spec ... filter_spec, *_stops, *_error_aborts, *_pure), using the lemma that the step counter never influences evaluation. Tie to the code: every int list of length 0-4 over a 4-symbol alphabet x 8 macro forms x 6 body kinds (pure, erroring on chosen elements, call-logging), maps, two-deep nesting, against the model and an independent reference implementation of the folds; the expansion itself is compared with the parser's for every macro shape.",
        "technique": "Lean 4: observational-equivalence calculus over the monadic evaluator, loop invariants by induction on the range, steps-irrelevance by induction on Expr + differential correspondence (outcome and ordered call log)",
        "design_ref": "DESIGN.md section 5, C10",
    },
    "C11": {
        "text": "Proof: Lean theorems over the context model: redefinition is functional update of one scope (lookup_scopeInsert), lookup returns the binding of the innermost scope that defines the name (lookup_innermost), names an inner scope does not define resolve outward, dropping an inner scope restores the parent exactly for every sequence of inner definitions (drop_restores_parent, induction over the definition list), variables and functions never affect each other's lookups and may share a name, add_function on a child is ignored; inside a macro body the iteration variable denotes the current element whatever the outer context binds, other names keep their outer meaning, and the expression following a macro is evaluated in the original context. Tie to the code: every operation sequence up to length 4 (quick) over 3 names/3 levels with lookups and function probes after each step, replayed against Context through its public API and against an independent stack-of-maps reference; programs nesting up to 3 macros over a 3-name pool shared with context variables and a function.",
        "technique": "Lean 4 refinement of the scope chain to a stack of finite maps (induction over scopes / definition lists) + differential correspondence on operation histories and nested-macro programs",
        "design_ref": "DESIGN.md section 5, C11",
    },
    "C01": {
        "text": "Proof (partial): the Lean port of the lexer and of the recursive-descent reading of the grammar is total (compile_total: every character sequence yields Ok or Err, structurally / by fuel, no panic outcome exists in the model's result type and fuel exhaustion is shown unreachable for accepted inputs by accept_consumes_all), and acceptance implies the structural facts the property lists: no lexical error, all tokens consumed, brackets balanced and properly nested (accept_brackets_balanced), no dangling operator at the end (accept_no_dangling_operator), the program starts with an operand (accept_starts_with_operand), the empty program is rejected. Tie to the code: a byte/char-level generator (grammar samples mutated by deletion, duplication, transposition and splicing of tokens and of raw characters incl. control, surrogate-range-adjacent and astral code points; deep nesting; unterminated literals and comments) compiled by the real parser in-process under catch_unwind: accept/reject must agree with the model, accepted inputs must yield the model's tree, rejected ones must carry an error whose line/column lie inside the source. What the model cannot carry: the ANTLR runtime's own panics, hangs and error-recovery paths are observed (catch_unwind, time budget) rather than proved absent; error positions are checked by predicate, not modelled.",
        "technique": "Lean 4 invariant over the 19 fuel-indexed parser functions (simultaneous induction on fuel) + differential correspondence on mutated sources with panic detection and error-position oracle",
        "design_ref": "DESIGN.md section 5, C01",
    },
    "C02": {
        "text": "Proof: eval_no_panic shows that evaluating any tree a compilation can produce (no Unspecified node), in any context - any variables, any registered functions including host functions of any signature - from any state never panics: it yields a value or an execution error; applyBin/applyUn/applyBuiltin_no_panic show the same for the value operators and every built-in on the parameter shapes extraction establishes. Every Rust panic site found while modelling was repaired in /repo (fix: commits) so that the model mirrors the code without exceptions. Tie to the code: well- and ill-typed generated programs to depth 8 against contexts with chrono/i64/u64 extremes, NaN/inf, function values and host functions of arity 0-9, plus all ordered pairs of a ~70-value boundary set under each operator implementation called directly; a panic of the implementation is itself the failing input.",
        "technique": "Lean 4 Hoare-style Sat calculus over the monadic evaluator, induction on Expr (4 motives), extract/loopG lemmas + differential correspondence with catch_unwind panic detection",
        "design_ref": "DESIGN.md section 5, C02",
    },
    "C03": {
        "text": "Proof: the Lean evaluator is the reference semantics; theorems give the named rules for all operands: strict operators evaluate left then right and the first error aborts before anything of the later operand happens, list literals abort at the first failing element, integer operators are the checked operations of C08, list/map indexing yields the element or null for every index incl. negatives and the i64 extremes, identifiers resolve or raise undeclared with that name; short-circuit rules are C06's theorems. Tie to the code: typed-grammar programs to depth 6 compiled by the real parser and evaluated on both sides, value-for-value and error class for error class. Type soundness of the typed fragment is not yet proved (partial).",
        "technique": "Lean 4 equational theorems about the evaluator + differential correspondence on typed-grammar programs (the model is the oracle)",
        "design_ref": "DESIGN.md section 5, C03",
    },
    "C07": {
        "text": "Proof: Lean theorems give, for arbitrary operand expressions, the exact sequencing of a call node as an equation between computations: receiver first, then the arguments left to right, each exactly once, then the host call logged with exactly those values (global and receiver style, any arity); strict operators evaluate left then right once; list elements and map key/value pairs in source order. The model is tied to the code by programs in which every leaf and call is a tagged logging host function, comparing the ordered call log with the model and with an independent left-to-right reference interpreter, and by nested call chains to depth 40 whose call count must stay linear. Cost theorems (C07Cost): a comprehension-free program performs at most size(e) node evaluations in any context whose host signatures are linear (all built-ins are), one macro level costs at most 1 + |init| + |range| + n(|cond| + |step|) + |result| for a range of n elements, and logged host calls never outnumber node evaluations; the bound for arbitrarily nested macros is not stated as one closed formula (partial).",
        "technique": "Lean 4 equational theorems about the monadic evaluator (monad laws, induction over signatures) + differential correspondence on ordered host-call logs",
        "design_ref": "DESIGN.md section 5, C07",
    },
    "C06": {
        "text": "Proof: for arbitrary operand expressions and arbitrary evaluation states the Lean theorems show that `a && b` with a false, `a || b` with a true and `c ? x : y` leave the state (host-call log, step counter) exactly as the needed operands left it, so nothing of the skipped operand - error, panic or host call - happens, at any depth and in macro bodies; the model is tied to the code by enumerating operator trees over erroring/logging operands and comparing outcome and ordered call log with the model and with an independent reference interpreter of the short-circuit rules.",
        "technique": "Lean 4 theorems about the monadic evaluator (state = log + steps) by unfolding callNode + differential correspondence with call-logging host functions",
        "design_ref": "DESIGN.md section 5, C06",
    },
    "C08": {
        "text": "Proof: 25 Lean theorems state, for all int/uint operands, that + - * / % and unary minus of the model are exact-or-overflow, that division truncates and (a/b)*b+a%b=a, that the remainder has the dividend's sign, that mixed numeric kinds are an error and that no operand makes the operators panic; the model is tied to this working tree by exhaustive boundary-pair correspondence (all ordered pairs of 78 i64 and 57 u64 boundary values under 5 operators, directly and through the evaluator) plus an independent i128 oracle.",
        "technique": "Lean 4 theorems over Int with range predicates (omega + Int.tdiv/tmod lemmas) + differential correspondence against the Lean model",
        "design_ref": "DESIGN.md section 5, C08",
    },
}

REASON_PENDING = "not yet claimed: model, theorems and correspondence stream for this property are still being built (see DESIGN.md section 10); nothing is asserted about it yet"

def main():
    props = [json.loads(l) for l in open("/verif/properties.jsonl")]
    checks, na = [], []
    for p in props:
        pid = p["id"]
        if pid in CLAIMED:
            c = CLAIMED[pid]
            checks.append({
                "property_id": pid,
                "quick_cmd": f"./check {pid} --tier quick",
                "thorough_cmd": f"./check {pid} --tier thorough",
                "evidence_file": f"/verif/evidence/{pid}.json",
                "replay_cmd_template": f"./check {pid} --replay {{path}}",
                "engine": "lean4-model+correspondence",
                "level_claimed": {"category": "proof", "text": c["text"], "design_ref": c["design_ref"]},
                "level_note": "Trusted: Lean 4.33 kernel; axioms propext/Classical.choice/Quot.sound only; the hand-written model and the harness. The theorems are about the model; they reach the code through the differential correspondence run by the same command (sampled, not exhaustive, outside the enumerated boundary sets). Third-party crates and runtime behaviour are modelled, not verified (DESIGN.md section 7).",
                "technique": c["technique"],
            })
        else:
            na.append({"property_id": pid, "reason": REASON_PENDING})
    m = {
        "version": 1,
        "setup_cmd": "./setup.sh",
        "hooks": {
            "guard": "cel_rust_verif",
            "enable": "none needed: every observation point is public API (Program::compile/execute/references, Parser::parse, Context::*, Value operators, to_value, Value::json); checks build /repo's crates unmodified as path dependencies of /verif/harness",
            "baseline_off_cmd": "cd /repo && cargo test --workspace --no-fail-fast --offline",
            "source_commits": [],
            "add_only": True,
        },
        "engines": [{
            "name": "lean4-model+correspondence",
            "path": "/verif/check",
            "serves_properties": sorted(CLAIMED.keys()),
            "kind_free_text": "Lean 4 model + kernel-checked theorems (lean/CelModel), tied to the code by a seeded differential correspondence harness (harness/) that runs the model's compiled definitions and the real crates on the same cases",
        }],
        "checks": checks,
        "not_applicable": na,
        "notes": "fix: commits in /repo repair genuine defects found while building the model (see known_findings.jsonl and DESIGN.md section 6).",
    }
    json.dump(m, open("/verif/MANIFEST.json", "w"), indent=1)

if __name__ == "__main__":
    main()
